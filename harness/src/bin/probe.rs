use bvh::out::Sink;
use bvh::{Ctx, props};
use std::collections::HashMap;

fn main() {
    let args: Vec<String> = std::env::args().collect();
    if args.len() < 2 {
        eprintln!("usage: probe <prop> [--seed S] [--tier quick|thorough] [--shard i/n] [--hashes PATH] [--key value ...]");
        std::process::exit(2);
    }
    let prop = args[1].to_uppercase();
    let mut opts: HashMap<String, String> = HashMap::new();
    let mut i = 2;
    while i < args.len() {
        if let Some(k) = args[i].strip_prefix("--") {
            let v = args.get(i + 1).cloned().unwrap_or_default();
            opts.insert(k.to_string(), v);
            i += 2;
        } else {
            i += 1;
        }
    }
    let seed = opts.get("seed").and_then(|s| s.parse().ok()).unwrap_or(1u64);
    let quick = opts.get("tier").map(|s| s != "thorough").unwrap_or(true);
    let (si, sn) = opts
        .get("shard")
        .and_then(|s| {
            let mut p = s.split('/');
            Some((p.next()?.parse().ok()?, p.next()?.parse().ok()?))
        })
        .unwrap_or((0u64, 1u64));
    let ctx = Ctx { seed, quick, shard_i: si, shard_n: sn, opts: opts.clone() };
    bvh::rt::install_quiet_panic_hook();
    let mut sink = Sink::new(&prop, opts.get("hashes").map(|s| s.as_str()));
    // everything runs on a thread with the CLI's main-thread stack size
    let stack = opts.get("stack").and_then(|s| s.parse().ok()).unwrap_or(bvh::rt::MAIN_STACK);
    let h = std::thread::Builder::new()
        .stack_size(stack)
        .spawn(move || {
            let ok = props::dispatch(&prop, &ctx, &mut sink);
            sink.finish();
            ok
        })
        .expect("spawn");
    match h.join() {
        Ok(true) => {}
        Ok(false) => {
            eprintln!("unknown property / mode");
            std::process::exit(2);
        }
        Err(_) => {
            eprintln!("probe: harness thread panicked");
            std::process::exit(3);
        }
    }
}
