//! The harness's own expression tree (`H`), its printers and the converter from the parser's AST.
//!
//! `H` is deliberately independent of `blots_core::ast`: printers use the precedence table stated in
//! property C10 (not `precedence.rs`), so "what the harness meant" and "what the parser built" can be
//! compared.

use blots_core::ast::{BinaryOp, Expr, PostfixOp, RecordKey, SpannedExpr, UnaryOp};
use blots_core::values::LambdaArg;

#[derive(Clone, Copy, Debug, PartialEq, Eq, Hash, PartialOrd, Ord)]
pub enum Op {
    Add, Sub, Mul, Div, Mod, Pow,
    Eq, Ne, Lt, Le, Gt, Ge,
    DEq, DNe, DLt, DLe, DGt, DGe,
    And, NAnd, Or, NOr,
    Via, Into, Where, Coal,
}

pub const ALL_OPS: [Op; 26] = [
    Op::Add, Op::Sub, Op::Mul, Op::Div, Op::Mod, Op::Pow,
    Op::Eq, Op::Ne, Op::Lt, Op::Le, Op::Gt, Op::Ge,
    Op::DEq, Op::DNe, Op::DLt, Op::DLe, Op::DGt, Op::DGe,
    Op::And, Op::NAnd, Op::Or, Op::NOr,
    Op::Via, Op::Into, Op::Where, Op::Coal,
];

impl Op {
    pub fn sym(self) -> &'static str {
        match self {
            Op::Add => "+", Op::Sub => "-", Op::Mul => "*", Op::Div => "/", Op::Mod => "%", Op::Pow => "^",
            Op::Eq => "==", Op::Ne => "!=", Op::Lt => "<", Op::Le => "<=", Op::Gt => ">", Op::Ge => ">=",
            Op::DEq => ".==", Op::DNe => ".!=", Op::DLt => ".<", Op::DLe => ".<=", Op::DGt => ".>", Op::DGe => ".>=",
            Op::And => "&&", Op::NAnd => "and", Op::Or => "||", Op::NOr => "or",
            Op::Via => "via", Op::Into => "into", Op::Where => "where", Op::Coal => "??",
        }
    }
    /// Precedence level of the table stated in C10 (1 loosest .. 6 tightest).
    pub fn level(self) -> u8 {
        match self {
            Op::And | Op::NAnd | Op::Or | Op::NOr | Op::Via | Op::Into | Op::Where => 1,
            Op::Eq | Op::Ne | Op::Lt | Op::Le | Op::Gt | Op::Ge
            | Op::DEq | Op::DNe | Op::DLt | Op::DLe | Op::DGt | Op::DGe => 2,
            Op::Add | Op::Sub => 3,
            Op::Mul | Op::Div | Op::Mod => 4,
            Op::Pow => 5,
            Op::Coal => 6,
        }
    }
    pub fn right_assoc(self) -> bool {
        self == Op::Pow
    }
    pub fn is_word(self) -> bool {
        matches!(self, Op::NAnd | Op::NOr | Op::Via | Op::Into | Op::Where)
    }
    pub fn is_vww(self) -> bool {
        matches!(self, Op::Via | Op::Into | Op::Where)
    }
    pub fn name(self) -> &'static str {
        match self {
            Op::Add => "Add", Op::Sub => "Sub", Op::Mul => "Mul", Op::Div => "Div", Op::Mod => "Mod", Op::Pow => "Pow",
            Op::Eq => "Eq", Op::Ne => "Ne", Op::Lt => "Lt", Op::Le => "Le", Op::Gt => "Gt", Op::Ge => "Ge",
            Op::DEq => "DotEq", Op::DNe => "DotNe", Op::DLt => "DotLt", Op::DLe => "DotLe", Op::DGt => "DotGt", Op::DGe => "DotGe",
            Op::And => "AndSym", Op::NAnd => "AndWord", Op::Or => "OrSym", Op::NOr => "OrWord",
            Op::Via => "Via", Op::Into => "Into", Op::Where => "Where", Op::Coal => "Coalesce",
        }
    }
    pub fn from_ast(op: &BinaryOp) -> Op {
        match op {
            BinaryOp::Add => Op::Add, BinaryOp::Subtract => Op::Sub, BinaryOp::Multiply => Op::Mul,
            BinaryOp::Divide => Op::Div, BinaryOp::Modulo => Op::Mod, BinaryOp::Power => Op::Pow,
            BinaryOp::Equal => Op::Eq, BinaryOp::NotEqual => Op::Ne, BinaryOp::Less => Op::Lt,
            BinaryOp::LessEq => Op::Le, BinaryOp::Greater => Op::Gt, BinaryOp::GreaterEq => Op::Ge,
            BinaryOp::DotEqual => Op::DEq, BinaryOp::DotNotEqual => Op::DNe, BinaryOp::DotLess => Op::DLt,
            BinaryOp::DotLessEq => Op::DLe, BinaryOp::DotGreater => Op::DGt, BinaryOp::DotGreaterEq => Op::DGe,
            BinaryOp::And => Op::And, BinaryOp::NaturalAnd => Op::NAnd, BinaryOp::Or => Op::Or,
            BinaryOp::NaturalOr => Op::NOr, BinaryOp::Via => Op::Via, BinaryOp::Into => Op::Into,
            BinaryOp::Where => Op::Where, BinaryOp::Coalesce => Op::Coal,
        }
    }
}

#[derive(Clone, Copy, Debug, PartialEq, Eq, Hash)]
pub enum UOp {
    Neg,
    Not,
}

/// f64 compared by bit pattern.
#[derive(Clone, Copy, Debug)]
pub struct F(pub f64);
impl PartialEq for F {
    fn eq(&self, o: &F) -> bool {
        self.0.to_bits() == o.0.to_bits()
    }
}

#[derive(Clone, Debug, PartialEq)]
pub enum Arg {
    Req(String),
    Opt(String),
    Rest(String),
}
impl Arg {
    pub fn name(&self) -> &str {
        match self {
            Arg::Req(n) | Arg::Opt(n) | Arg::Rest(n) => n,
        }
    }
    pub fn show(&self) -> String {
        match self {
            Arg::Req(n) => n.clone(),
            Arg::Opt(n) => format!("{}?", n),
            Arg::Rest(n) => format!("...{}", n),
        }
    }
}

#[derive(Clone, Debug, PartialEq)]
pub enum Key {
    Static(String),
    Dyn(Box<H>),
    Short(String),
    Spread(Box<H>),
}

#[derive(Clone, Debug, PartialEq)]
pub enum H {
    Num(F),
    Str(String),
    Bool(bool),
    Null,
    Id(String),
    InRef(String),
    BuiltIn(String),
    List(Vec<H>),
    /// value is `H::Null` for shorthand / spread entries
    Rec(Vec<(Key, H)>),
    Lam(Vec<Arg>, Box<H>),
    Cond(Box<H>, Box<H>, Box<H>),
    Do(Vec<H>, Box<H>),
    Assign(String, Box<H>),
    Output(Box<H>),
    Call(Box<H>, Vec<H>),
    Index(Box<H>, Box<H>),
    Field(Box<H>, String),
    Bin(Op, Box<H>, Box<H>),
    Un(UOp, Box<H>),
    Fact(Box<H>),
    Spread(Box<H>),
}

pub fn num(x: f64) -> H {
    if x.is_sign_negative() && !x.is_nan() {
        H::Un(UOp::Neg, Box::new(H::Num(F(-x))))
    } else {
        H::Num(F(x))
    }
}
pub fn id(s: &str) -> H {
    H::Id(s.to_string())
}
pub fn st(s: &str) -> H {
    H::Str(s.to_string())
}
pub fn bin(op: Op, l: H, r: H) -> H {
    H::Bin(op, Box::new(l), Box::new(r))
}
pub fn call(f: H, args: Vec<H>) -> H {
    H::Call(Box::new(f), args)
}
pub fn bi(name: &str) -> H {
    H::BuiltIn(name.to_string())
}
pub fn lam1(p: &str, body: H) -> H {
    H::Lam(vec![Arg::Req(p.to_string())], Box::new(body))
}
pub fn assign(n: &str, v: H) -> H {
    H::Assign(n.to_string(), Box::new(v))
}

impl H {
    /// Short class name of the node kind (used in signatures).
    pub fn kind(&self) -> String {
        match self {
            H::Num(_) => "Num".into(),
            H::Str(_) => "Str".into(),
            H::Bool(_) => "Bool".into(),
            H::Null => "Null".into(),
            H::Id(_) => "Id".into(),
            H::InRef(_) => "InRef".into(),
            H::BuiltIn(_) => "BuiltIn".into(),
            H::List(_) => "List".into(),
            H::Rec(_) => "Rec".into(),
            H::Lam(..) => "Lambda".into(),
            H::Cond(..) => "Cond".into(),
            H::Do(..) => "Do".into(),
            H::Assign(..) => "Assign".into(),
            H::Output(..) => "Output".into(),
            H::Call(..) => "Call".into(),
            H::Index(..) => "Index".into(),
            H::Field(..) => "Field".into(),
            H::Bin(op, ..) => format!("Bin{}", op.level()),
            H::Un(UOp::Neg, _) => "Neg".into(),
            H::Un(UOp::Not, _) => "Not".into(),
            H::Fact(_) => "Fact".into(),
            H::Spread(_) => "Spread".into(),
        }
    }
    pub fn depth(&self) -> usize {
        let mut d = 0;
        self.for_children(&mut |c| d = d.max(c.depth()));
        d + 1
    }
    pub fn size(&self) -> usize {
        let mut n = 1;
        self.for_children(&mut |c| n += c.size());
        n
    }
    pub fn for_children(&self, f: &mut dyn FnMut(&H)) {
        match self {
            H::List(xs) => xs.iter().for_each(|x| f(x)),
            H::Rec(es) => {
                for (k, v) in es {
                    match k {
                        Key::Dyn(e) => {
                            f(e);
                            f(v)
                        }
                        Key::Spread(e) => f(e),
                        Key::Static(_) => f(v),
                        Key::Short(_) => {}
                    }
                }
            }
            H::Lam(_, b) => f(b),
            H::Cond(a, b, c) => {
                f(a);
                f(b);
                f(c)
            }
            H::Do(ss, r) => {
                ss.iter().for_each(|x| f(x));
                f(r)
            }
            H::Assign(_, v) | H::Output(v) | H::Un(_, v) | H::Fact(v) | H::Spread(v) | H::Field(v, _) => f(v),
            H::Call(g, a) => {
                f(g);
                a.iter().for_each(|x| f(x))
            }
            H::Index(a, b) | H::Bin(_, a, b) => {
                f(a);
                f(b)
            }
            _ => {}
        }
    }
}

/// rebuild `h` with its n-th child (in `for_children` order) replaced
pub fn replace_nth_child(h: &H, n: usize, new: &H) -> H {
    // rebuild `h` with its n-th child (in for_children order) replaced
    let mut i = 0usize;
    let mut take = |c: &H| -> H {
        let r = if i == n { new.clone() } else { c.clone() };
        i += 1;
        r
    };
    match h {
        H::List(xs) => H::List(xs.iter().map(|x| take(x)).collect()),
        H::Rec(es) => H::Rec(
            es.iter()
                .map(|(k, v)| match k {
                    Key::Dyn(e) => {
                        let ke = take(e);
                        let ve = take(v);
                        (Key::Dyn(Box::new(ke)), ve)
                    }
                    Key::Spread(e) => (Key::Spread(Box::new(take(e))), H::Null),
                    Key::Static(s) => (Key::Static(s.clone()), take(v)),
                    Key::Short(s) => (Key::Short(s.clone()), H::Null),
                })
                .collect(),
        ),
        H::Lam(a, b) => H::Lam(a.clone(), Box::new(take(b))),
        H::Cond(a, b, c) => {
            let (x, y, z) = (take(a), take(b), take(c));
            H::Cond(Box::new(x), Box::new(y), Box::new(z))
        }
        H::Do(ss, r) => {
            let s2: Vec<H> = ss.iter().map(|s| take(s)).collect();
            H::Do(s2, Box::new(take(r)))
        }
        H::Assign(n2, v) => H::Assign(n2.clone(), Box::new(take(v))),
        H::Output(v) => H::Output(Box::new(take(v))),
        H::Un(u, v) => H::Un(*u, Box::new(take(v))),
        H::Fact(v) => H::Fact(Box::new(take(v))),
        H::Spread(v) => H::Spread(Box::new(take(v))),
        H::Field(v, f) => H::Field(Box::new(take(v)), f.clone()),
        H::Call(g, a) => {
            let g2 = take(g);
            H::Call(Box::new(g2), a.iter().map(|x| take(x)).collect())
        }
        H::Index(a, b) => {
            let (x, y) = (take(a), take(b));
            H::Index(Box::new(x), Box::new(y))
        }
        H::Bin(o, a, b) => {
            let (x, y) = (take(a), take(b));
            H::Bin(*o, Box::new(x), Box::new(y))
        }
        other => other.clone(),
    }
}


/// child positions (in `for_children` order) whose evaluation is unconditional and happens in the
/// same scope as the parent (no lambda body, do-block, assignment or conditional branch)
pub fn strict_child_positions(h: &H) -> Vec<usize> {
    match h {
        H::List(xs) => (0..xs.len()).filter(|i| !matches!(xs[*i], H::Spread(_))).collect(),
        H::Rec(es) => {
            let mut v = Vec::new();
            let mut i = 0;
            for (k, _) in es {
                match k {
                    Key::Dyn(_) => {
                        v.push(i);
                        v.push(i + 1);
                        i += 2;
                    }
                    Key::Spread(_) => {
                        v.push(i);
                        i += 1;
                    }
                    Key::Static(_) => {
                        v.push(i);
                        i += 1;
                    }
                    Key::Short(_) => {}
                }
            }
            v
        }
        H::Cond(..) => vec![0],
        H::Call(_, a) => (0..=a.len()).filter(|i| *i == 0 || !matches!(a[*i - 1], H::Spread(_))).collect(),
        H::Index(..) | H::Bin(..) => vec![0, 1],
        H::Un(..) | H::Fact(_) | H::Field(..) | H::Spread(_) => vec![0],
        _ => vec![],
    }
}

// ------------------------------------------------------------------------------------------------
// Printers

/// Places where optional layout may be inserted; the decorator may replace the canonical text.
#[derive(Clone, Copy, Debug, PartialEq, Eq, Hash)]
pub enum Gap {
    AfterOpenParen,
    BeforeCloseParen,
    BeforeSymOp,
    AfterSymOp,
    BeforeWordOp,
    AfterWordOp,
    AfterListOpen,
    AfterListComma,
    BeforeListClose,
    /// after the last list item, on the same line (position of an end-of-line comment)
    ListLastItemEol,
    AfterRecOpen,
    AfterRecComma,
    BeforeRecClose,
    RecLastItemEol,
    AfterRecColon,
    AfterArrow,
    BeforeThen,
    AfterThen,
    BeforeElse,
    AfterElse,
    AfterCallOpen,
    AfterCallComma,
    BeforeCallClose,
    AfterIndexOpen,
    BeforeIndexClose,
    DoAfterOpen,
    /// own-line position before a do-block statement
    DoBeforeStmt,
    /// directly after a do-block statement, same line
    DoStmtEol,
    DoBeforeReturn,
    DoBeforeClose,
    AfterAssignEq,
    AfterNotWord,
    /// after the last list item: a trailing comma may be emitted here
    ListTrailingComma,
    RecTrailingComma,
    /// after the last call argument: `,` + line break may be emitted here
    CallTrailingComma,
    /// asked once per operand: returning Some(_) wraps the operand in redundant parentheses
    MaybeParen,
}

impl Gap {
    pub fn canonical(self) -> &'static str {
        match self {
            Gap::AfterOpenParen | Gap::BeforeCloseParen => "",
            Gap::BeforeSymOp | Gap::AfterSymOp | Gap::BeforeWordOp | Gap::AfterWordOp => " ",
            Gap::AfterListOpen | Gap::BeforeListClose | Gap::ListLastItemEol => "",
            Gap::AfterListComma => " ",
            Gap::AfterRecOpen | Gap::BeforeRecClose | Gap::RecLastItemEol => "",
            Gap::AfterRecComma | Gap::AfterRecColon => " ",
            Gap::AfterArrow => " ",
            Gap::BeforeThen | Gap::AfterThen | Gap::BeforeElse | Gap::AfterElse => " ",
            Gap::AfterCallOpen | Gap::BeforeCallClose => "",
            Gap::AfterCallComma => " ",
            Gap::AfterIndexOpen | Gap::BeforeIndexClose => "",
            Gap::DoAfterOpen => "\n",
            Gap::DoBeforeStmt => "",
            Gap::DoStmtEol => "",
            Gap::DoBeforeReturn => "",
            Gap::DoBeforeClose => "\n",
            Gap::AfterAssignEq => " ",
            Gap::AfterNotWord => " ",
            Gap::ListTrailingComma | Gap::RecTrailingComma | Gap::CallTrailingComma | Gap::MaybeParen => "",
        }
    }
}

#[derive(Clone, Copy, PartialEq, Eq, Debug)]
pub enum Mode {
    /// every compound operand in parentheses
    Full,
    /// parentheses only where the C10 table requires them
    Min,
}

pub struct Printer<'a> {
    pub mode: Mode,
    /// print `not x` instead of `!x`
    pub word_not: bool,
    /// extra redundant parentheses around every `n`-th sub-expression visited (0 = never)
    pub deco: Option<&'a mut dyn FnMut(Gap) -> Option<String>>,
}

fn fmt_num(x: f64) -> String {
    // Display of f64 never uses exponent notation and is exact-round-trip.
    format!("{}", x)
}

pub fn fmt_str_lit(s: &str) -> Option<String> {
    if !s.contains('"') {
        Some(format!("\"{}\"", s))
    } else if !s.contains('\'') {
        Some(format!("'{}'", s))
    } else {
        None
    }
}

pub fn is_plain_ident(s: &str) -> bool {
    let mut cs = s.chars();
    match cs.next() {
        Some(c) if c.is_ascii_alphabetic() || c == '_' => {}
        _ => return false,
    }
    cs.all(|c| c.is_ascii_alphanumeric() || c == '_')
        && !RESERVED.contains(&s)
}

pub const RESERVED: [&str; 12] = [
    "if", "then", "else", "true", "false", "null", "and", "or", "not", "do", "return", "output",
];

impl<'a> Printer<'a> {
    pub fn new(mode: Mode) -> Printer<'a> {
        Printer { mode, word_not: false, deco: None }
    }
    fn gap(&mut self, g: Gap, out: &mut String) {
        if let Some(d) = self.deco.as_mut() {
            if let Some(s) = d(g) {
                out.push_str(&s);
                return;
            }
        }
        out.push_str(g.canonical());
    }

    pub fn print(&mut self, h: &H) -> String {
        let mut s = String::new();
        self.p(h, &mut s);
        s
    }

    /// A statement must not begin with `-` or `+` (it would continue the previous line).
    pub fn print_stmt(&mut self, h: &H) -> String {
        let s = self.print(h);
        if s.starts_with('-') || s.starts_with('+') {
            format!("({})", s)
        } else {
            s
        }
    }

    fn paren(&mut self, h: &H, out: &mut String) {
        out.push('(');
        self.gap(Gap::AfterOpenParen, out);
        self.p(h, out);
        self.gap(Gap::BeforeCloseParen, out);
        out.push(')');
    }

    fn is_atom(h: &H) -> bool {
        matches!(
            h,
            H::Num(_) | H::Str(_) | H::Bool(_) | H::Null | H::Id(_) | H::InRef(_) | H::BuiltIn(_) | H::List(_) | H::Rec(_)
        )
    }

    /// operand position: `need` says whether Min mode requires parentheses
    fn operand(&mut self, h: &H, need: bool, out: &mut String) {
        let wrap = match self.mode {
            Mode::Full => !Self::is_atom(h),
            Mode::Min => need,
        };
        let extra = if !wrap && !matches!(h, H::Spread(_)) {
            match self.deco.as_mut() {
                Some(d) => d(Gap::MaybeParen).is_some(),
                None => false,
            }
        } else {
            false
        };
        if wrap || extra {
            self.paren(h, out)
        } else {
            self.p(h, out)
        }
    }

    fn open_kind(h: &H) -> bool {
        // node kinds that swallow what follows / must always be parenthesised in operand position
        matches!(h, H::Cond(..) | H::Lam(..) | H::Assign(..) | H::Output(..) | H::Spread(..))
    }

    fn p(&mut self, h: &H, out: &mut String) {
        match h {
            H::Num(F(x)) => out.push_str(&fmt_num(*x)),
            H::Str(s) => out.push_str(&fmt_str_lit(s).expect("string literal with both quote kinds")),
            H::Bool(b) => out.push_str(if *b { "true" } else { "false" }),
            H::Null => out.push_str("null"),
            H::Id(n) | H::BuiltIn(n) => out.push_str(n),
            H::InRef(n) => {
                out.push('#');
                out.push_str(n)
            }
            H::List(xs) => {
                if xs.is_empty() {
                    out.push_str("[]");
                    return;
                }
                out.push('[');
                self.gap(Gap::AfterListOpen, out);
                for (i, x) in xs.iter().enumerate() {
                    if i > 0 {
                        out.push(',');
                        self.gap(Gap::AfterListComma, out);
                    }
                    self.p(x, out);
                }
                self.gap(Gap::ListTrailingComma, out);
                self.gap(Gap::ListLastItemEol, out);
                self.gap(Gap::BeforeListClose, out);
                out.push(']');
            }
            H::Rec(es) => {
                if es.is_empty() {
                    out.push_str("{}");
                    return;
                }
                out.push('{');
                self.gap(Gap::AfterRecOpen, out);
                for (i, (k, v)) in es.iter().enumerate() {
                    if i > 0 {
                        out.push(',');
                        self.gap(Gap::AfterRecComma, out);
                    }
                    match k {
                        Key::Static(s) => {
                            if is_plain_ident(s) {
                                out.push_str(s)
                            } else {
                                out.push_str(&fmt_str_lit(s).expect("record key with both quote kinds"))
                            }
                            out.push(':');
                            self.gap(Gap::AfterRecColon, out);
                            self.p(v, out);
                        }
                        Key::Dyn(e) => {
                            out.push('[');
                            self.p(e, out);
                            out.push(']');
                            out.push(':');
                            self.gap(Gap::AfterRecColon, out);
                            self.p(v, out);
                        }
                        Key::Short(n) => out.push_str(n),
                        Key::Spread(e) => {
                            out.push_str("...");
                            self.p(e, out)
                        }
                    }
                }
                self.gap(Gap::RecTrailingComma, out);
                self.gap(Gap::RecLastItemEol, out);
                self.gap(Gap::BeforeRecClose, out);
                out.push('}');
            }
            H::Lam(args, body) => {
                if args.len() == 1 && matches!(args[0], Arg::Req(_)) {
                    out.push_str(args[0].name());
                } else {
                    out.push('(');
                    for (i, a) in args.iter().enumerate() {
                        if i > 0 {
                            out.push_str(", ");
                        }
                        out.push_str(&a.show());
                    }
                    out.push(')');
                }
                out.push_str(" =>");
                self.gap(Gap::AfterArrow, out);
                // lambda bodies do not admit via/into/where (nor, conservatively, any level-1 chain)
                let need = matches!(&**body, H::Bin(op, ..) if op.level() == 1)
                    || matches!(&**body, H::Assign(..) | H::Output(..) | H::Spread(..));
                self.operand(body, need, out);
            }
            H::Cond(c, a, b) => {
                out.push_str("if ");
                self.operand(c, Self::open_kind(c), out);
                self.gap(Gap::BeforeThen, out);
                out.push_str("then");
                self.gap(Gap::AfterThen, out);
                self.operand(a, Self::open_kind(a), out);
                self.gap(Gap::BeforeElse, out);
                out.push_str("else");
                self.gap(Gap::AfterElse, out);
                match self.mode {
                    Mode::Full => self.operand(b, false, out),
                    Mode::Min => self.p(b, out),
                }
            }
            H::Do(stmts, ret) => {
                out.push_str("do {");
                self.gap(Gap::DoAfterOpen, out);
                for s in stmts {
                    self.gap(Gap::DoBeforeStmt, out);
                    let t = {
                        let mut tmp = String::new();
                        self.p(s, &mut tmp);
                        tmp
                    };
                    if t.starts_with('-') || t.starts_with('+') {
                        out.push('(');
                        out.push_str(&t);
                        out.push(')');
                    } else {
                        out.push_str(&t);
                    }
                    self.gap(Gap::DoStmtEol, out);
                    out.push('\n');
                }
                self.gap(Gap::DoBeforeReturn, out);
                out.push_str("return ");
                self.p(ret, out);
                self.gap(Gap::DoBeforeClose, out);
                out.push('}');
            }
            H::Assign(n, v) => {
                out.push_str(n);
                out.push_str(" =");
                self.gap(Gap::AfterAssignEq, out);
                self.p(v, out);
            }
            H::Output(v) => {
                out.push_str("output ");
                self.p(v, out);
            }
            H::Call(f, args) => {
                let need = !matches!(&**f, H::Id(_) | H::BuiltIn(_) | H::InRef(_) | H::Call(..) | H::Index(..) | H::Field(..) | H::List(_) | H::Rec(_) | H::Str(_));
                self.operand(f, need, out);
                out.push('(');
                if !args.is_empty() {
                    self.gap(Gap::AfterCallOpen, out);
                }
                for (i, a) in args.iter().enumerate() {
                    if i > 0 {
                        out.push(',');
                        self.gap(Gap::AfterCallComma, out);
                    }
                    self.p(a, out);
                }
                if !args.is_empty() {
                    self.gap(Gap::CallTrailingComma, out);
                    self.gap(Gap::BeforeCallClose, out);
                }
                out.push(')');
            }
            H::Index(b, i) => {
                let need = !matches!(&**b, H::Id(_) | H::BuiltIn(_) | H::InRef(_) | H::Call(..) | H::Index(..) | H::Field(..) | H::List(_) | H::Rec(_) | H::Str(_));
                self.operand(b, need, out);
                out.push('[');
                self.gap(Gap::AfterIndexOpen, out);
                self.p(i, out);
                self.gap(Gap::BeforeIndexClose, out);
                out.push(']');
            }
            H::Field(b, f) => {
                let need = !matches!(&**b, H::Id(_) | H::InRef(_) | H::Call(..) | H::Index(..) | H::Field(..) | H::Rec(_));
                self.operand(b, need, out);
                out.push('.');
                out.push_str(f);
            }
            H::Bin(op, l, r) => {
                let lneed = match &**l {
                    H::Bin(c, ..) => c.level() < op.level() || (c.level() == op.level() && op.right_assoc()),
                    x => Self::open_kind(x),
                };
                let rneed = match &**r {
                    H::Bin(c, ..) => c.level() < op.level() || (c.level() == op.level() && !op.right_assoc()),
                    x => Self::open_kind(x),
                };
                self.operand(l, lneed, out);
                if op.is_word() {
                    self.gap(Gap::BeforeWordOp, out);
                    out.push_str(op.sym());
                    self.gap(Gap::AfterWordOp, out);
                } else {
                    self.gap(Gap::BeforeSymOp, out);
                    out.push_str(op.sym());
                    self.gap(Gap::AfterSymOp, out);
                }
                self.operand(r, rneed, out);
            }
            H::Un(u, e) => {
                match u {
                    UOp::Neg => out.push('-'),
                    UOp::Not => {
                        if self.word_not {
                            out.push_str("not");
                            self.gap(Gap::AfterNotWord, out);
                        } else {
                            out.push('!')
                        }
                    }
                }
                let need = matches!(&**e, H::Bin(..)) || Self::open_kind(e);
                self.operand(e, need, out);
            }
            H::Fact(e) => {
                let need = matches!(&**e, H::Bin(..) | H::Un(..) | H::Do(..)) || Self::open_kind(e);
                self.operand(e, need, out);
                out.push('!');
            }
            H::Spread(e) => {
                out.push_str("...");
                self.p(e, out);
            }
        }
    }
}

pub fn print_full(h: &H) -> String {
    Printer::new(Mode::Full).print_stmt(h)
}
pub fn print_min(h: &H) -> String {
    Printer::new(Mode::Min).print_stmt(h)
}
pub fn print_program(stmts: &[H], mode: Mode) -> String {
    let mut p = Printer::new(mode);
    stmts.iter().map(|s| p.print_stmt(s)).collect::<Vec<_>>().join("\n")
}

// ------------------------------------------------------------------------------------------------
// Converter from the parser's AST

pub fn from_expr(e: &SpannedExpr) -> H {
    match &e.node {
        Expr::Number(n) => H::Num(F(*n)),
        Expr::String(s) => H::Str(s.clone()),
        Expr::Bool(b) => H::Bool(*b),
        Expr::Null => H::Null,
        Expr::Identifier(n) => H::Id(n.clone()),
        Expr::InputReference(n) => H::InRef(n.clone()),
        Expr::BuiltIn(b) => H::BuiltIn(b.name().to_string()),
        Expr::List(xs) => H::List(xs.iter().map(|c| from_expr(&c.node)).collect()),
        Expr::Record(es) => H::Rec(
            es.iter()
                .map(|c| {
                    let en = &c.node;
                    match &en.key {
                        RecordKey::Static(k) => (Key::Static(k.clone()), from_expr(&en.value)),
                        RecordKey::Dynamic(k) => (Key::Dyn(Box::new(from_expr(k))), from_expr(&en.value)),
                        RecordKey::Shorthand(k) => (Key::Short(k.clone()), H::Null),
                        RecordKey::Spread(k) => {
                            // the parser stores `...e` as Spread(e) inside the key
                            let inner = match &k.node {
                                Expr::Spread(x) => from_expr(x),
                                _ => from_expr(k),
                            };
                            (Key::Spread(Box::new(inner)), H::Null)
                        }
                    }
                })
                .collect(),
        ),
        Expr::Lambda { args, body } => H::Lam(
            args.iter()
                .map(|a| match a {
                    LambdaArg::Required(n) => Arg::Req(n.clone()),
                    LambdaArg::Optional(n) => Arg::Opt(n.clone()),
                    LambdaArg::Rest(n) => Arg::Rest(n.clone()),
                })
                .collect(),
            Box::new(from_expr(body)),
        ),
        Expr::Conditional { condition, then_expr, else_expr } => H::Cond(
            Box::new(from_expr(condition)),
            Box::new(from_expr(then_expr)),
            Box::new(from_expr(else_expr)),
        ),
        Expr::DoBlock { statements, return_expr } => H::Do(
            statements.iter().map(|c| from_expr(&c.node)).collect(),
            Box::new(from_expr(&return_expr.node)),
        ),
        Expr::Assignment { ident, value } => H::Assign(ident.clone(), Box::new(from_expr(value))),
        Expr::Output { expr } => H::Output(Box::new(from_expr(expr))),
        Expr::Call { func, args } => H::Call(Box::new(from_expr(func)), args.iter().map(from_expr).collect()),
        Expr::Access { expr, index } => H::Index(Box::new(from_expr(expr)), Box::new(from_expr(index))),
        Expr::DotAccess { expr, field } => H::Field(Box::new(from_expr(expr)), field.clone()),
        Expr::BinaryOp { op, left, right } => {
            H::Bin(Op::from_ast(op), Box::new(from_expr(left)), Box::new(from_expr(right)))
        }
        Expr::UnaryOp { op, expr } => H::Un(
            match op {
                UnaryOp::Negate => UOp::Neg,
                UnaryOp::Not | UnaryOp::Invert => UOp::Not,
            },
            Box::new(from_expr(expr)),
        ),
        Expr::PostfixOp { op, expr } => match op {
            PostfixOp::Factorial => H::Fact(Box::new(from_expr(expr))),
        },
        Expr::Spread(x) => H::Spread(Box::new(from_expr(x))),
    }
}

/// Comment texts attached anywhere in a parsed tree, in source order (used by C09 as a cross-check).
pub fn collect_ast_comments(e: &SpannedExpr, out: &mut Vec<String>) {
    fn push_trailing(t: &Option<String>, out: &mut Vec<String>) {
        if let Some(t) = t {
            for l in t.split('\n') {
                out.push(l.to_string());
            }
        }
    }
    match &e.node {
        Expr::List(xs) => {
            for c in xs {
                out.extend(c.leading.iter().cloned());
                collect_ast_comments(&c.node, out);
                push_trailing(&c.trailing, out);
            }
        }
        Expr::Record(es) => {
            for c in es {
                out.extend(c.leading.iter().cloned());
                match &c.node.key {
                    RecordKey::Dynamic(k) | RecordKey::Spread(k) => collect_ast_comments(k, out),
                    _ => {}
                }
                collect_ast_comments(&c.node.value, out);
                push_trailing(&c.trailing, out);
            }
        }
        Expr::DoBlock { statements, return_expr } => {
            for c in statements {
                out.extend(c.leading.iter().cloned());
                collect_ast_comments(&c.node, out);
                push_trailing(&c.trailing, out);
            }
            out.extend(return_expr.leading.iter().cloned());
            collect_ast_comments(&return_expr.node, out);
            push_trailing(&return_expr.trailing, out);
        }
        Expr::Lambda { body, .. } => collect_ast_comments(body, out),
        Expr::Conditional { condition, then_expr, else_expr } => {
            collect_ast_comments(condition, out);
            collect_ast_comments(then_expr, out);
            collect_ast_comments(else_expr, out);
        }
        Expr::Assignment { value, .. } => collect_ast_comments(value, out),
        Expr::Output { expr } => collect_ast_comments(expr, out),
        Expr::Call { func, args } => {
            collect_ast_comments(func, out);
            for a in args {
                collect_ast_comments(a, out)
            }
        }
        Expr::Access { expr, index } => {
            collect_ast_comments(expr, out);
            collect_ast_comments(index, out)
        }
        Expr::DotAccess { expr, .. } => collect_ast_comments(expr, out),
        Expr::BinaryOp { left, right, .. } => {
            collect_ast_comments(left, out);
            collect_ast_comments(right, out)
        }
        Expr::UnaryOp { expr, .. } | Expr::PostfixOp { expr, .. } => collect_ast_comments(expr, out),
        Expr::Spread(x) => collect_ast_comments(x, out),
        _ => {}
    }
}
