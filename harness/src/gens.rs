//! Generators: boundary value pools, typed expression / program generator over the harness tree.

use crate::hexpr::*;
use crate::rng::Rng;
use crate::rt::RVal;

// ------------------------------------------------------------------------------------------------
// boundary pools

pub fn boundary_numbers() -> Vec<f64> {
    vec![
        0.0, -0.0, 1.0, -1.0, 0.5, -0.5, 0.1, 0.2, 0.3, 1.0 / 3.0, 2.0, -2.0, 3.0, 7.0, 10.0, 100.0, 255.0, 1e6,
        9007199254740991.0, 9007199254740992.0, 9007199254740994.0, -9007199254740992.0,
        1e15 - 1.0, 1e15, 1e15 + 1.0, 1e21, 1e30, -1e30, 1e308, f64::MAX, f64::MIN, 5e-324, 2.2250738585072014e-308,
        4294967295.0, 4294967296.0, 9.3e18, 1.9e19, -9.3e18,
        f64::INFINITY, f64::NEG_INFINITY, f64::NAN, 1.5, 2.5, -2.5, 170.0, 171.0, 1e-7, 123456.789,
    ]
}

pub fn random_f64(r: &mut Rng) -> f64 {
    match r.below(6) {
        0 => *r.pick(&boundary_numbers()),
        1 => r.range(-20, 20) as f64,
        2 => (r.range(-2000, 2000) as f64) / 8.0,
        3 => f64::from_bits(r.next()),
        4 => (r.unit() - 0.5) * 10f64.powi(r.range(-12, 18) as i32),
        _ => r.range(-1000000, 1000000) as f64,
    }
}

/// finite, not NaN
pub fn random_finite(r: &mut Rng) -> f64 {
    loop {
        let x = random_f64(r);
        if x.is_finite() {
            return x;
        }
    }
}

pub fn boundary_strings() -> Vec<String> {
    vec![
        "", "a", "abc", "hello world", " ", "  padded  ", "é", "éa", "日本語", "a😀b", "e\u{301}", "ß", "İ",
        "it's", "say \"hi\"", "both ' and \"", "back\\slash", "tab\tsep", "line\nbreak", "\u{0}", "\u{1f}", "\u{2028}",
        "123", "-1.5e3", "true", "null", "if", "//not a comment", "a,b,,c", "{}", "[1]", "x => x", "#tag", "{0} and {1}",
        "ǅ", "\u{feff}bom", "\r\n",
    ]
    .into_iter()
    .map(String::from)
    .collect()
}

pub fn random_string(r: &mut Rng) -> String {
    match r.below(4) {
        0 => r.pick(&boundary_strings()).clone(),
        1 => {
            let n = r.below(8);
            (0..n).map(|_| (b'a' + r.below(6) as u8) as char).collect()
        }
        2 => {
            let alphabet: Vec<char> = "aé日😀\u{301} \"'\\\n,:{}[]()#/=.0-_Zß".chars().collect();
            let n = r.below(10);
            (0..n).map(|_| *r.pick(&alphabet)).collect()
        }
        _ => {
            let n = r.below(6);
            (0..n)
                .map(|_| loop {
                    let c = (r.next() % 0x11_0000) as u32;
                    if let Some(ch) = char::from_u32(c) {
                        break ch;
                    }
                })
                .collect()
        }
    }
}

/// Random data value (no functions). `finite_only` excludes NaN / infinities.
pub fn random_data(r: &mut Rng, depth: usize, finite_only: bool) -> RVal {
    let k = if depth == 0 { r.below(4) } else { r.below(7) };
    match k {
        0 => RVal::num(if finite_only { random_finite(r) } else { random_f64(r) }),
        1 => RVal::Str(random_string(r)),
        2 => RVal::Bool(r.chance(1, 2)),
        3 => RVal::Null,
        4 | 5 => {
            let n = r.below(5);
            RVal::List((0..n).map(|_| random_data(r, depth - 1, finite_only)).collect())
        }
        _ => {
            let n = r.below(5);
            let mut keys: Vec<String> = Vec::new();
            let mut es = Vec::new();
            for _ in 0..n {
                let k = match r.below(4) {
                    0 => r.pick(&["a", "b", "c", "key", "x1", "_u"]).to_string(),
                    1 => r.pick(&["", "0", "1", "with space", "if", "é", "a-b", "\"q\""]).to_string(),
                    _ => random_string(r),
                };
                if keys.contains(&k) {
                    continue;
                }
                keys.push(k.clone());
                es.push((k, random_data(r, depth - 1, finite_only)));
            }
            RVal::Rec(es)
        }
    }
}

/// A pool item: either a value built directly in the heap or a source expression to evaluate.
#[derive(Clone, Debug)]
pub enum PoolItem {
    Direct(RVal),
    Src(&'static str),
}

impl PoolItem {
    pub fn describe(&self) -> String {
        match self {
            PoolItem::Direct(v) => v.show(),
            PoolItem::Src(s) => format!("`{}`", s),
        }
    }
    /// coarse class for signatures
    pub fn class(&self) -> String {
        match self {
            PoolItem::Direct(v) => match v {
                RVal::Num(b) => {
                    let x = f64::from_bits(*b);
                    if x.is_nan() {
                        "NaN".into()
                    } else if x.is_infinite() {
                        if x > 0.0 { "+inf".into() } else { "-inf".into() }
                    } else if x == 0.0 {
                        if x.is_sign_negative() { "-0".into() } else { "0".into() }
                    } else if x.fract() != 0.0 {
                        if x < 0.0 { "neg-fraction".into() } else { "fraction".into() }
                    } else if x.abs() >= 9007199254740992.0 {
                        if x < 0.0 { "neg-huge".into() } else { "huge".into() }
                    } else if x < 0.0 {
                        "neg-int".into()
                    } else {
                        "int".into()
                    }
                }
                RVal::Str(s) => {
                    if s.is_empty() {
                        "empty-string".into()
                    } else if s.is_ascii() {
                        "ascii-string".into()
                    } else {
                        "non-ascii-string".into()
                    }
                }
                RVal::Bool(_) => "bool".into(),
                RVal::Null => "null".into(),
                RVal::List(l) => {
                    if l.is_empty() {
                        "empty-list".into()
                    } else if l.iter().any(|x| matches!(x, RVal::Num(b) if f64::from_bits(*b).is_nan())) {
                        "list-containing-NaN".into()
                    } else if l.iter().all(|x| matches!(x, RVal::Num(_))) {
                        "number-list".into()
                    } else if l.iter().all(|x| matches!(x, RVal::Str(_))) {
                        "string-list".into()
                    } else if l.iter().all(|x| matches!(x, RVal::List(_))) {
                        "nested-list".into()
                    } else {
                        "mixed-list".into()
                    }
                }
                RVal::Rec(r) => {
                    if r.is_empty() { "empty-record".into() } else { "record".into() }
                }
                RVal::BuiltIn(_) => "built-in".into(),
                _ => "other".into(),
            },
            PoolItem::Src(s) => {
                if s.contains("=>") {
                    format!("lambda`{}`", s)
                } else {
                    format!("src`{}`", s)
                }
            }
        }
    }
}

/// The C01 boundary pool (numbers, strings, lists, records, lambdas, built-ins).
pub fn boundary_pool() -> Vec<PoolItem> {
    use PoolItem::*;
    let n = |x: f64| Direct(RVal::num(x));
    let s = |x: &str| Direct(RVal::Str(x.to_string()));
    let l = |xs: Vec<RVal>| Direct(RVal::List(xs));
    let nums = |xs: &[f64]| RVal::List(xs.iter().map(|x| RVal::num(*x)).collect());
    let mut big_mixed = Vec::new();
    for i in 0..60 {
        big_mixed.push(match i % 5 {
            0 => RVal::num(i as f64),
            1 => RVal::Str(format!("s{}", i % 7)),
            2 => RVal::num(-(i as f64) / 3.0),
            3 => RVal::Bool(i % 2 == 0),
            _ => RVal::Null,
        });
    }
    let mut big_nums = Vec::new();
    for i in 0..64 {
        big_nums.push(RVal::num(((i * 37) % 23) as f64 - 7.5));
    }
    vec![
        n(f64::NAN), n(f64::INFINITY), n(f64::NEG_INFINITY), n(0.0), n(-0.0), n(1.0), n(-1.0), n(2.0), n(0.5), n(-2.5), n(3.0),
        n(9007199254740992.0), n(1e30), n(-1e30), n(1e308), n(5e-324), n(4294967296.0), n(100.0),
        s(""), s("a"), s("éa"), s("日本😀"), s("a,b"), s("12"), s("{}"),
        Direct(RVal::Bool(true)), Direct(RVal::Bool(false)), Direct(RVal::Null),
        l(vec![]),
        Direct(nums(&[3.0, 1.0, 2.0])),
        Direct(nums(&[f64::NAN, 1.0, 2.0])),
        Direct(nums(&[1.0])),
        l(vec![RVal::Str("b".into()), RVal::Str("a".into()), RVal::Str("é".into())]),
        l(vec![nums(&[1.0, 2.0]), nums(&[]), nums(&[3.0])]),
        l(vec![RVal::num(1.0), RVal::Str("a".into()), RVal::Null, RVal::Bool(true), nums(&[1.0])]),
        l(big_mixed),
        l(big_nums),
        l(vec![RVal::Bool(true), RVal::Bool(false)]),
        Direct(RVal::Rec(vec![])),
        Direct(RVal::Rec(vec![("a".into(), RVal::num(1.0)), ("b c".into(), RVal::Str("x".into())), ("".into(), RVal::Null)])),
        l(vec![RVal::Rec(vec![("k".into(), RVal::Str("x".into()))]), RVal::Rec(vec![("k".into(), RVal::Str("y".into()))])]),
        Src("x => x"),
        Src("(a, b) => a + b"),
        Src("(a, b?) => [a, b]"),
        Src("(...r) => r"),
        Src("(a, b, c) => a"),
        Src("x => x > 1"),
        Src("x => \"k\""),
        Src("() => 1"),
        Src("x => nope_undefined"),
        Direct(RVal::BuiltIn("len".into())),
        Direct(RVal::BuiltIn("sum".into())),
        Direct(RVal::BuiltIn("map".into())),
        Direct(RVal::BuiltIn("to_string".into())),
    ]
}

// ------------------------------------------------------------------------------------------------
// typed expression generator

#[derive(Clone, Copy, Debug, PartialEq, Eq)]
pub enum Ty {
    Num,
    Bool,
    Str,
    LNum,
    LStr,
    Rec,
    FnNN,
    FnNB,
    Any,
}

pub const DATA_TYS: [Ty; 6] = [Ty::Num, Ty::Bool, Ty::Str, Ty::LNum, Ty::LStr, Ty::Rec];

#[derive(Clone, Debug)]
pub struct Scope {
    pub vars: Vec<(String, Ty)>,
    next_param: usize,
}

impl Scope {
    pub fn new() -> Scope {
        Scope { vars: Vec::new(), next_param: 0 }
    }
    pub fn of_ty(&self, t: Ty) -> Vec<&str> {
        self.vars.iter().filter(|(_, ty)| *ty == t).map(|(n, _)| n.as_str()).collect()
    }
    pub fn fresh_param(&mut self) -> String {
        self.next_param += 1;
        format!("p{}", self.next_param)
    }
    pub fn has(&self, n: &str) -> bool {
        self.vars.iter().any(|(k, _)| k == n)
    }
}

#[derive(Clone, Debug)]
pub struct GenCfg {
    /// probability (per mille) of deliberately generating a sub-expression of another type
    pub ill_typed_permille: u32,
    /// allow do-blocks
    pub do_blocks: bool,
    /// allow `#name` / inputs references
    pub inputs: bool,
    /// allow via/into/where
    pub vww: bool,
    /// allow string literals with awkward characters
    pub odd_strings: bool,
    /// probability (per mille) that a do-block local / lambda parameter reuses (shadows) a name in scope
    pub shadowing_permille: u32,
}

impl Default for GenCfg {
    fn default() -> Self {
        GenCfg { ill_typed_permille: 0, do_blocks: true, inputs: false, vww: true, odd_strings: false, shadowing_permille: 0 }
    }
}

pub struct Gen<'a> {
    pub r: &'a mut Rng,
    pub cfg: GenCfg,
}

const ARITH: [Op; 6] = [Op::Add, Op::Sub, Op::Mul, Op::Div, Op::Mod, Op::Pow];
const CMP: [Op; 6] = [Op::Eq, Op::Ne, Op::Lt, Op::Le, Op::Gt, Op::Ge];
const DCMP: [Op; 6] = [Op::DEq, Op::DNe, Op::DLt, Op::DLe, Op::DGt, Op::DGe];
const LOGIC: [Op; 4] = [Op::And, Op::NAnd, Op::Or, Op::NOr];

impl<'a> Gen<'a> {
    pub fn new(r: &'a mut Rng, cfg: GenCfg) -> Gen<'a> {
        Gen { r, cfg }
    }

    fn small_num(&mut self) -> H {
        let x = match self.r.below(8) {
            0 => 0.0,
            1 => 1.0,
            2 => 2.0,
            3 => self.r.range(0, 12) as f64,
            4 => 0.5,
            5 => self.r.range(0, 1000) as f64 / 8.0,
            6 => *self.r.pick(&[0.1, 0.2, 0.3, 1e6, 1e15, 1e21, 123456789.0, 0.001]),
            _ => self.r.range(3, 99) as f64,
        };
        H::Num(F(x))
    }

    fn str_lit(&mut self) -> H {
        let pool: &[&str] = if self.cfg.odd_strings {
            &["", "a", "b", "abc", "x y", "é", "日本", "it's", "q\"q", "a,b", "0", "k", "back\\slash", "😀", "two\nlines", "cr\r\nlf", "  lead\n   more", "tab\there", "// no comment", "end\\", "trail \n"]
        } else {
            &["", "a", "b", "abc", "x y", "a,b", "k", "zz", "0"]
        };
        H::Str(self.r.pick(pool).to_string())
    }

    fn var_or(&mut self, sc: &Scope, t: Ty) -> Option<H> {
        let c = sc.of_ty(t);
        if c.is_empty() || self.r.chance(1, 4) {
            None
        } else {
            Some(H::Id(self.r.pick(&c).to_string()))
        }
    }

    pub fn expr(&mut self, t: Ty, depth: usize, sc: &mut Scope) -> H {
        let t = if self.cfg.ill_typed_permille > 0 && self.r.chance(self.cfg.ill_typed_permille, 1000) {
            *self.r.pick(&[Ty::Num, Ty::Bool, Ty::Str, Ty::LNum, Ty::LStr, Ty::Rec, Ty::FnNN, Ty::FnNB])
        } else {
            t
        };
        let t = if t == Ty::Any { *self.r.pick(&DATA_TYS) } else { t };
        if depth == 0 {
            return self.leaf(t, sc);
        }
        let d = depth - 1;
        match t {
            Ty::Num => match self.r.below(20) {
                0 | 1 => self.leaf(t, sc),
                2..=5 => {
                    let op = *self.r.pick(&ARITH);
                    bin(op, self.expr(Ty::Num, d, sc), self.expr(Ty::Num, d, sc))
                }
                6 => H::Un(UOp::Neg, Box::new(self.expr(Ty::Num, d, sc))),
                7 => H::Fact(Box::new(H::Num(F(self.r.range(0, 12) as f64)))),
                8 => {
                    let f = *self.r.pick(&["abs", "floor", "ceil", "round", "sqrt", "trunc"]);
                    call(bi(f), vec![self.expr(Ty::Num, d, sc)])
                }
                9 => {
                    let f = *self.r.pick(&["sum", "max", "min", "avg", "len", "median", "prod"]);
                    call(bi(f), vec![self.nonempty_lnum(d, sc)])
                }
                10 => H::Cond(
                    Box::new(self.expr(Ty::Bool, d, sc)),
                    Box::new(self.expr(Ty::Num, d, sc)),
                    Box::new(self.expr(Ty::Num, d, sc)),
                ),
                11 => bin(
                    Op::Coal,
                    H::Index(Box::new(self.expr(Ty::LNum, d, sc)), Box::new(H::Num(F(self.r.range(0, 3) as f64)))),
                    self.expr(Ty::Num, d, sc),
                ),
                12 => {
                    let k = *self.r.pick(&["a", "b", "k"]);
                    H::Field(Box::new(H::Rec(vec![(Key::Static(k.into()), self.expr(Ty::Num, d, sc))])), k.into())
                }
                13 => call(self.expr(Ty::FnNN, d, sc), vec![self.expr(Ty::Num, d, sc)]),
                14 if self.cfg.do_blocks => {
                    // the local may shadow a numeric name in scope (`k = k + 1` reads the outer k)
                    let nums: Vec<String> = sc.of_ty(Ty::Num).iter().map(|s| s.to_string()).collect();
                    let t1 = if !nums.is_empty() && self.r.chance(self.cfg.shadowing_permille, 1000) { self.r.pick(&nums).clone() } else { sc.fresh_param() };
                    let v = self.expr(Ty::Num, d, sc);
                    sc.vars.push((t1.clone(), Ty::Num));
                    let mut stmts = vec![assign(&t1, v)];
                    // further statements: bare expressions (some starting with a minus) and bindings
                    for _ in 0..self.r.below(3) {
                        let s = match self.r.below(4) {
                            0 => H::Un(UOp::Neg, Box::new(self.leaf(Ty::Num, sc))),
                            1 => bin(Op::Sub, H::Un(UOp::Neg, Box::new(self.leaf(Ty::Num, sc))), self.small_num()),
                            2 => self.expr(Ty::Num, d.min(1), sc),
                            _ => {
                                let t2 = sc.fresh_param();
                                let v2 = self.expr(Ty::Num, d.min(1), sc);
                                assign(&t2, v2)
                            }
                        };
                        stmts.push(s);
                    }
                    let ret = self.expr(Ty::Num, d, sc);
                    sc.vars.pop();
                    H::Do(stmts, Box::new(ret))
                }
                15 if self.cfg.vww => bin(Op::Into, self.expr(Ty::Num, d, sc), self.expr(Ty::FnNN, d, sc)),
                16 => bin(Op::Coal, self.expr(Ty::Num, d, sc), self.expr(Ty::Num, d, sc)),
                17 if self.cfg.inputs => bin(Op::Coal, H::InRef(self.r.pick(&["n", "m", "absent"]).to_string()), self.small_num()),
                18 => call(bi("min"), vec![self.expr(Ty::Num, d, sc), self.expr(Ty::Num, d, sc)]),
                _ => {
                    let op = *self.r.pick(&[Op::Add, Op::Sub, Op::Mul]);
                    bin(op, self.expr(Ty::Num, d, sc), self.leaf(Ty::Num, sc))
                }
            },
            Ty::Bool => match self.r.below(12) {
                0 => self.leaf(t, sc),
                1..=3 => {
                    let op = *self.r.pick(&CMP);
                    bin(op, self.expr(Ty::Num, d, sc), self.expr(Ty::Num, d, sc))
                }
                4 => {
                    let op = *self.r.pick(&[Op::Eq, Op::Ne, Op::Lt, Op::Ge]);
                    bin(op, self.expr(Ty::Str, d, sc), self.expr(Ty::Str, d, sc))
                }
                5 | 6 => {
                    let op = *self.r.pick(&LOGIC);
                    bin(op, self.expr(Ty::Bool, d, sc), self.expr(Ty::Bool, d, sc))
                }
                7 => H::Un(UOp::Not, Box::new(self.expr(Ty::Bool, d, sc))),
                8 => {
                    let op = *self.r.pick(&DCMP);
                    bin(op, self.expr(Ty::LNum, d, sc), self.expr(Ty::LNum, d, sc))
                }
                9 => {
                    let f = *self.r.pick(&["every", "some"]);
                    call(bi(f), vec![self.expr(Ty::LNum, d, sc), self.expr(Ty::FnNB, d, sc)])
                }
                10 => H::Cond(
                    Box::new(self.expr(Ty::Bool, d, sc)),
                    Box::new(self.expr(Ty::Bool, d, sc)),
                    Box::new(self.expr(Ty::Bool, d, sc)),
                ),
                _ => call(bi("includes"), vec![self.expr(Ty::LNum, d, sc), self.expr(Ty::Num, d, sc)]),
            },
            Ty::Str => match self.r.below(9) {
                0 | 1 => self.leaf(t, sc),
                2 | 3 => bin(Op::Add, self.expr(Ty::Str, d, sc), self.expr(Ty::Str, d, sc)),
                4 => call(bi("to_string"), vec![self.expr(Ty::Num, d, sc)]),
                5 => {
                    let f = *self.r.pick(&["uppercase", "lowercase", "trim"]);
                    call(bi(f), vec![self.expr(Ty::Str, d, sc)])
                }
                6 => call(bi("join"), vec![self.expr(Ty::LStr, d, sc), self.str_lit()]),
                7 => H::Cond(
                    Box::new(self.expr(Ty::Bool, d, sc)),
                    Box::new(self.expr(Ty::Str, d, sc)),
                    Box::new(self.expr(Ty::Str, d, sc)),
                ),
                _ => call(bi("typeof"), vec![self.expr(Ty::Any, d, sc)]),
            },
            Ty::LNum => match self.r.below(14) {
                0 => self.leaf(t, sc),
                1 | 2 => {
                    let n = self.r.below(5);
                    H::List((0..n).map(|_| self.expr(Ty::Num, d, sc)).collect())
                }
                3 => call(bi("range"), vec![H::Num(F(self.r.range(0, 8) as f64))]),
                4 => call(bi("map"), vec![self.expr(Ty::LNum, d, sc), self.expr(Ty::FnNN, d, sc)]),
                5 if self.cfg.vww => bin(Op::Via, self.expr(Ty::LNum, d, sc), self.expr(Ty::FnNN, d, sc)),
                6 if self.cfg.vww => bin(Op::Where, self.expr(Ty::LNum, d, sc), self.expr(Ty::FnNB, d, sc)),
                7 => {
                    let op = *self.r.pick(&[Op::Add, Op::Mul, Op::Sub]);
                    if self.r.chance(1, 2) {
                        bin(op, self.expr(Ty::LNum, d, sc), self.expr(Ty::Num, d, sc))
                    } else {
                        bin(op, self.expr(Ty::Num, d, sc), self.expr(Ty::LNum, d, sc))
                    }
                }
                8 => {
                    let f = *self.r.pick(&["sort", "reverse", "unique", "tail"]);
                    call(bi(f), vec![self.expr(Ty::LNum, d, sc)])
                }
                9 => H::List(vec![H::Spread(Box::new(self.expr(Ty::LNum, d, sc))), self.expr(Ty::Num, d, sc)]),
                10 => call(bi("concat"), vec![self.expr(Ty::LNum, d, sc), self.expr(Ty::LNum, d, sc)]),
                11 => call(bi("filter"), vec![self.expr(Ty::LNum, d, sc), self.expr(Ty::FnNB, d, sc)]),
                12 => H::Cond(
                    Box::new(self.expr(Ty::Bool, d, sc)),
                    Box::new(self.expr(Ty::LNum, d, sc)),
                    Box::new(self.expr(Ty::LNum, d, sc)),
                ),
                _ => call(bi("values"), vec![self.rec_of_nums(d, sc)]),
            },
            Ty::LStr => match self.r.below(6) {
                0 => self.leaf(t, sc),
                1 | 2 => {
                    let n = self.r.below(4);
                    H::List((0..n).map(|_| self.expr(Ty::Str, d, sc)).collect())
                }
                3 => call(bi("split"), vec![self.expr(Ty::Str, d, sc), self.str_lit()]),
                4 => call(bi("keys"), vec![self.expr(Ty::Rec, d, sc)]),
                _ => H::List(vec![H::Spread(Box::new(self.expr(Ty::Str, d, sc)))]),
            },
            Ty::Rec => match self.r.below(6) {
                0 => self.leaf(t, sc),
                1..=3 => {
                    let n = self.r.below(4);
                    let mut es = Vec::new();
                    let mut used: Vec<String> = Vec::new();
                    for _ in 0..n {
                        let k = if self.cfg.odd_strings {
                            self.r.pick(&["a", "b", "c", "k", "key one", "0", "n_1", "café", "thé_1", "x²", "ß", "_é", "naïve", "it's", "q\"q", "", "if", "a-b", "日本"]).to_string()
                        } else {
                            self.r.pick(&["a", "b", "c", "k", "key one", "0", "n_1"]).to_string()
                        };
                        if used.contains(&k) {
                            continue;
                        }
                        used.push(k.clone());
                        let vt = *self.r.pick(&[Ty::Num, Ty::Str, Ty::Bool, Ty::LNum]);
                        if self.r.chance(1, 6) {
                            es.push((Key::Dyn(Box::new(H::Str(k))), self.expr(vt, d, sc)));
                        } else {
                            es.push((Key::Static(k), self.expr(vt, d, sc)));
                        }
                    }
                    // shorthand of a variable in scope
                    if !sc.vars.is_empty() && self.r.chance(1, 4) {
                        let (n, _) = self.r.pick(&sc.vars).clone();
                        if !used.contains(&n) {
                            es.push((Key::Short(n), H::Null));
                        }
                    }
                    H::Rec(es)
                }
                4 => H::Rec(vec![
                    (Key::Spread(Box::new(self.expr(Ty::Rec, d, sc))), H::Null),
                    (Key::Static("z".into()), self.expr(Ty::Num, d, sc)),
                ]),
                _ => H::Cond(
                    Box::new(self.expr(Ty::Bool, d, sc)),
                    Box::new(self.expr(Ty::Rec, d, sc)),
                    Box::new(self.expr(Ty::Rec, d, sc)),
                ),
            },
            Ty::FnNN | Ty::FnNB => {
                if self.r.chance(1, 5) {
                    return self.leaf(t, sc);
                }
                let nums: Vec<String> = sc.of_ty(Ty::Num).iter().map(|s| s.to_string()).collect();
                let p = if !nums.is_empty() && self.r.chance(self.cfg.shadowing_permille, 1000) { self.r.pick(&nums).clone() } else { sc.fresh_param() };
                sc.vars.push((p.clone(), Ty::Num));
                let rt = if t == Ty::FnNN { Ty::Num } else { Ty::Bool };
                let body = self.expr(rt, d, sc);
                sc.vars.pop();
                let mut args = vec![Arg::Req(p)];
                match self.r.below(8) {
                    0 => args.push(Arg::Opt(sc.fresh_param())),
                    1 => args.push(Arg::Rest(sc.fresh_param())),
                    _ => {}
                }
                H::Lam(args, Box::new(body))
            }
            Ty::Any => unreachable!(),
        }
    }

    fn nonempty_lnum(&mut self, d: usize, sc: &mut Scope) -> H {
        let n = 1 + self.r.below(4);
        H::List((0..n).map(|_| self.expr(Ty::Num, d.min(1), sc)).collect())
    }

    fn rec_of_nums(&mut self, d: usize, sc: &mut Scope) -> H {
        let n = self.r.below(4);
        H::Rec(
            (0..n)
                .map(|i| (Key::Static(["a", "b", "c", "d"][i].to_string()), self.expr(Ty::Num, d.min(1), sc)))
                .collect(),
        )
    }

    pub fn leaf(&mut self, t: Ty, sc: &mut Scope) -> H {
        if let Some(v) = self.var_or(sc, t) {
            return v;
        }
        match t {
            Ty::Num => self.small_num(),
            Ty::Bool => H::Bool(self.r.chance(1, 2)),
            Ty::Str => self.str_lit(),
            Ty::LNum => {
                let n = self.r.below(4);
                H::List((0..n).map(|_| self.small_num()).collect())
            }
            Ty::LStr => {
                let n = self.r.below(3);
                H::List((0..n).map(|_| self.str_lit()).collect())
            }
            Ty::Rec => H::Rec(vec![(Key::Static("a".into()), self.small_num())]),
            Ty::FnNN => {
                if self.r.chance(1, 3) {
                    bi(*self.r.pick(&["abs", "floor", "sqrt"]))
                } else {
                    let p = sc.fresh_param();
                    let k = self.small_num();
                    lam1(&p, bin(*self.r.pick(&[Op::Add, Op::Mul, Op::Sub]), id(&p), k))
                }
            }
            Ty::FnNB => {
                let p = sc.fresh_param();
                let k = self.small_num();
                lam1(&p, bin(*self.r.pick(&CMP), id(&p), k))
            }
            Ty::Any => H::Null,
        }
    }

    /// A program: sequence of bindings / expressions / output declarations.
    /// Returns the statements and the final scope.
    pub fn program(&mut self, n_stmts: usize, depth: usize, names: &[&str]) -> (Vec<H>, Scope) {
        let mut sc = Scope::new();
        let mut out = Vec::new();
        let mut free: Vec<&str> = names.to_vec();
        for _ in 0..n_stmts {
            let t = *self.r.pick(&[Ty::Num, Ty::Num, Ty::Bool, Ty::Str, Ty::LNum, Ty::LNum, Ty::LStr, Ty::Rec, Ty::FnNN, Ty::FnNB]);
            let d = 1 + self.r.below(depth.max(1));
            let e = self.expr(t, d, &mut sc);
            if !free.is_empty() && self.r.chance(3, 4) {
                let i = self.r.below(free.len());
                let n = free.remove(i);
                if self.r.chance(1, 5) {
                    out.push(H::Output(Box::new(assign(n, e))));
                } else {
                    out.push(assign(n, e));
                }
                sc.vars.push((n.to_string(), t));
            } else {
                out.push(e);
            }
        }
        (out, sc)
    }
}

pub const NAMES: [&str; 12] = ["a", "b", "c", "d", "alpha", "beta", "total", "xs", "ys", "cfg", "f", "g"];
