//! Reference models - small independent re-implementations of documented semantics.
//! None of this shares code with /repo.

use crate::rt::RVal;
use std::cmp::Ordering;

fn f(b: &u64) -> f64 {
    f64::from_bits(*b)
}

/// The partial order of C12: numbers by value, booleans false < true, strings and lists
/// lexicographically with a proper prefix first; everything else (and NaN) unordered.
pub fn compare(a: &RVal, b: &RVal) -> Option<Ordering> {
    match (a, b) {
        (RVal::Num(x), RVal::Num(y)) => f(x).partial_cmp(&f(y)),
        (RVal::Bool(x), RVal::Bool(y)) => Some(x.cmp(y)),
        (RVal::Str(x), RVal::Str(y)) => {
            // code point order
            let mut xi = x.chars();
            let mut yi = y.chars();
            loop {
                match (xi.next(), yi.next()) {
                    (None, None) => return Some(Ordering::Equal),
                    (None, Some(_)) => return Some(Ordering::Less),
                    (Some(_), None) => return Some(Ordering::Greater),
                    (Some(c), Some(d)) => {
                        if c != d {
                            return Some((c as u32).cmp(&(d as u32)));
                        }
                    }
                }
            }
        }
        (RVal::List(x), RVal::List(y)) => {
            for (p, q) in x.iter().zip(y.iter()) {
                match compare(p, q) {
                    Some(Ordering::Equal) => continue,
                    other => return other,
                }
            }
            Some(x.len().cmp(&y.len()))
        }
        _ => None,
    }
}

/// `.==` on data values
pub fn equal(a: &RVal, b: &RVal) -> bool {
    a.sem_eq(b)
}

/// Outcome of a scalar operation in the model.
#[derive(Clone, Debug, PartialEq)]
pub enum MOut {
    Val(RVal),
    Fail,
    /// the model makes no claim (e.g. comparisons involving NaN)
    NoClaim,
}

/// Scalar operator semantics of C11 on two non-list values.
/// `op` is the operator's symbol as printed by the harness.
pub fn scalar_op(op: &str, a: &RVal, b: &RVal) -> MOut {
    use RVal::*;
    let is_nan = |v: &RVal| matches!(v, Num(x) if f(x).is_nan());
    match op {
        "+" => match (a, b) {
            (Num(x), Num(y)) => MOut::Val(RVal::num(f(x) + f(y))),
            (Str(x), Str(y)) => MOut::Val(Str(format!("{}{}", x, y))),
            _ => MOut::Fail,
        },
        "-" | "*" | "/" | "%" | "^" => match (a, b) {
            (Num(x), Num(y)) => {
                let (x, y) = (f(x), f(y));
                MOut::Val(RVal::num(match op {
                    "-" => x - y,
                    "*" => x * y,
                    "/" => x / y,
                    "%" => x % y,
                    _ => x.powf(y),
                }))
            }
            _ => MOut::Fail,
        },
        "&&" | "and" | "||" | "or" => match (a, b) {
            (Bool(x), Bool(y)) => MOut::Val(Bool(if op == "&&" || op == "and" { *x && *y } else { *x || *y })),
            _ => MOut::Fail,
        },
        "??" => MOut::Val(if matches!(a, Null) { b.clone() } else { a.clone() }),
        "==" | ".==" => {
            if is_nan(a) || is_nan(b) {
                return MOut::NoClaim;
            }
            MOut::Val(Bool(equal(a, b)))
        }
        "!=" | ".!=" => {
            if is_nan(a) || is_nan(b) {
                return MOut::NoClaim;
            }
            MOut::Val(Bool(!equal(a, b)))
        }
        "<" | "<=" | ">" | ">=" | ".<" | ".<=" | ".>" | ".>=" => {
            if is_nan(a) || is_nan(b) {
                return MOut::NoClaim;
            }
            match compare(a, b) {
                None => MOut::Fail,
                Some(o) => {
                    let t = op.trim_start_matches('.');
                    MOut::Val(Bool(match t {
                        "<" => o == Ordering::Less,
                        "<=" => o != Ordering::Greater,
                        ">" => o == Ordering::Greater,
                        _ => o != Ordering::Less,
                    }))
                }
            }
        }
        _ => MOut::NoClaim,
    }
}

/// Argument binding of C04: parameter list as (required count, optional count, has rest).
/// Returns the expected value of `[p1, ..., pn]` for `argc` arguments `0, 1, 2, ...`,
/// or None if the call must be an error.
pub fn bind_args(req: usize, opt: usize, rest: bool, argc: usize) -> Option<Vec<RVal>> {
    if argc < req {
        return None;
    }
    if !rest && argc > req + opt {
        return None;
    }
    let mut out = Vec::new();
    for i in 0..req {
        out.push(RVal::num(i as f64));
    }
    for i in req..req + opt {
        if i < argc {
            out.push(RVal::num(i as f64));
        } else {
            out.push(RVal::Null);
        }
    }
    if rest {
        let from = req + opt;
        let xs: Vec<RVal> = (from..argc).map(|i| RVal::num(i as f64)).collect();
        out.push(RVal::List(xs));
    }
    Some(out)
}
