//! Exhaustive small tree shapes: every (parent kind, child position, child kind) over all node kinds
//! and all 26 binary operators. Shared by C05 (emit/reload), C07/C08 (formatter).

use crate::hexpr::*;

#[derive(Clone, Debug, PartialEq)]
pub enum PK {
    Bin(Op),
    Neg,
    Not,
    Fact,
    CallFunc,
    CallArg,
    IndexBase,
    IndexIdx,
    FieldBase,
    CondIf,
    CondThen,
    CondElse,
    LamBody,
    ListItem,
    RecValue,
    RecDynKey,
    SpreadInList,
    DoStmt,
    DoRet,
    AssignValue,
}

#[derive(Clone, Debug, PartialEq)]
pub enum CK {
    Bin(Op),
    Neg,
    Not,
    Fact,
    Call,
    Index,
    Field,
    Cond,
    Lam,
    /// lambdas with other parameter lists: a single rest parameter, a single optional one, none, required + optional + rest
    LamRest,
    LamOpt,
    LamNone,
    LamMulti,
    /// a record whose static keys are not ASCII identifiers
    RecOddKeys,
    Assign,
    Do,
    List,
    Rec,
    NegLit,
}

pub fn child_kinds() -> Vec<CK> {
    let mut v: Vec<CK> = ALL_OPS.iter().map(|o| CK::Bin(*o)).collect();
    v.extend([CK::Neg, CK::Not, CK::Fact, CK::Call, CK::Index, CK::Field, CK::Cond, CK::Lam, CK::LamRest, CK::LamOpt, CK::LamNone, CK::LamMulti, CK::RecOddKeys, CK::Assign, CK::Do, CK::List, CK::Rec, CK::NegLit]);
    v
}

/// (parent kind, side for binary parents: 0 = left, 1 = right)
pub fn parent_kinds() -> Vec<(PK, usize)> {
    let mut v: Vec<(PK, usize)> = Vec::new();
    for o in ALL_OPS.iter() {
        v.push((PK::Bin(*o), 0));
        v.push((PK::Bin(*o), 1));
    }
    for p in [
        PK::Neg, PK::Not, PK::Fact, PK::CallFunc, PK::CallArg, PK::IndexBase, PK::IndexIdx, PK::FieldBase, PK::CondIf, PK::CondThen,
        PK::CondElse, PK::LamBody, PK::ListItem, PK::RecValue, PK::RecDynKey, PK::SpreadInList, PK::DoStmt, PK::DoRet, PK::AssignValue,
    ] {
        v.push((p, 0));
    }
    v
}

pub fn mk_child(ck: &CK) -> H {
    let a = || id("a");
    let b = || id("b");
    match ck {
        CK::Bin(o) => bin(*o, a(), b()),
        CK::Neg => H::Un(UOp::Neg, Box::new(a())),
        CK::Not => H::Un(UOp::Not, Box::new(a())),
        CK::Fact => H::Fact(Box::new(a())),
        CK::Call => call(a(), vec![b()]),
        CK::Index => H::Index(Box::new(a()), Box::new(b())),
        CK::Field => H::Field(Box::new(a()), "k".into()),
        CK::Cond => H::Cond(Box::new(a()), Box::new(b()), Box::new(id("c"))),
        CK::Lam => lam1("x", bin(Op::Add, id("x"), a())),
        CK::LamRest => H::Lam(vec![Arg::Rest("xs".into())], Box::new(H::List(vec![id("xs"), a()]))),
        CK::LamOpt => H::Lam(vec![Arg::Opt("x".into())], Box::new(bin(Op::Coal, id("x"), a()))),
        CK::LamNone => H::Lam(vec![], Box::new(bin(Op::Add, a(), b()))),
        CK::LamMulti => H::Lam(vec![Arg::Req("x".into()), Arg::Opt("y".into()), Arg::Rest("zs".into())], Box::new(H::List(vec![id("x"), id("y"), id("zs"), a()]))),
        CK::Assign => assign("t", a()),
        CK::Do => H::Do(vec![assign("t", a())], Box::new(bin(Op::Add, id("t"), b()))),
        CK::List => H::List(vec![a(), b()]),
        CK::Rec => H::Rec(vec![(Key::Static("k".into()), a())]),
        CK::RecOddKeys => H::Rec(vec![(Key::Static("café".into()), a()), (Key::Static("two words".into()), b()), (Key::Static("x²".into()), a()), (Key::Static("_ü".into()), b())]),
        CK::NegLit => H::Un(UOp::Neg, Box::new(H::Num(F(3.0)))),
    }
}

pub fn mk_parent(pk: &PK, side: usize, child: H) -> H {
    let c = || id("c");
    let d = || id("d");
    match pk {
        PK::Bin(o) => {
            if side == 0 {
                bin(*o, child, c())
            } else {
                bin(*o, c(), child)
            }
        }
        PK::Neg => H::Un(UOp::Neg, Box::new(child)),
        PK::Not => H::Un(UOp::Not, Box::new(child)),
        PK::Fact => H::Fact(Box::new(child)),
        PK::CallFunc => call(child, vec![c()]),
        PK::CallArg => call(id("f"), vec![c(), child]),
        PK::IndexBase => H::Index(Box::new(child), Box::new(c())),
        PK::IndexIdx => H::Index(Box::new(c()), Box::new(child)),
        PK::FieldBase => H::Field(Box::new(child), "k".into()),
        PK::CondIf => H::Cond(Box::new(child), Box::new(c()), Box::new(d())),
        PK::CondThen => H::Cond(Box::new(c()), Box::new(child), Box::new(d())),
        PK::CondElse => H::Cond(Box::new(c()), Box::new(d()), Box::new(child)),
        PK::LamBody => lam1("y", child),
        PK::ListItem => H::List(vec![c(), child, d()]),
        PK::RecValue => H::Rec(vec![(Key::Static("k".into()), child), (Key::Static("m".into()), c())]),
        PK::RecDynKey => H::Rec(vec![(Key::Dyn(Box::new(child)), c())]),
        PK::SpreadInList => H::List(vec![H::Spread(Box::new(child)), c()]),
        PK::DoStmt => H::Do(vec![child], Box::new(c())),
        PK::DoRet => H::Do(vec![assign("u", c())], Box::new(child)),
        PK::AssignValue => assign("v", child),
    }
}

pub fn ctx_class(pk: &PK, side: usize) -> String {
    match pk {
        PK::Bin(o) => format!("Bin{}(L{}{})", if side == 0 { "L" } else { "R" }, o.level(), if o.is_word() { "w" } else { "" }),
        PK::Neg | PK::Not => "Prefix".into(),
        PK::Fact => "PostfixBase(fact)".into(),
        PK::CallFunc => "PostfixBase(call)".into(),
        PK::IndexBase => "PostfixBase(index)".into(),
        PK::FieldBase => "PostfixBase(field)".into(),
        PK::CallArg => "CallArg".into(),
        PK::IndexIdx => "IndexIdx".into(),
        PK::CondIf => "CondIf".into(),
        PK::CondThen => "CondThen".into(),
        PK::CondElse => "CondElse".into(),
        PK::LamBody => "LambdaBody".into(),
        PK::ListItem => "ListItem".into(),
        PK::RecValue => "RecValue".into(),
        PK::RecDynKey => "RecDynKey".into(),
        PK::SpreadInList => "Spread".into(),
        PK::DoStmt => "DoStmt".into(),
        PK::DoRet => "DoRet".into(),
        PK::AssignValue => "AssignValue".into(),
    }
}

pub fn child_class(ck: &CK) -> String {
    match ck {
        CK::Bin(o) => format!("Bin(L{}{})", o.level(), if o.is_word() { "w" } else { "" }),
        CK::Neg | CK::Not => "Prefix".into(),
        CK::NegLit => "NegLiteral".into(),
        CK::Fact => "Fact".into(),
        CK::Call => "Call".into(),
        CK::Index => "Index".into(),
        CK::Field => "Field".into(),
        CK::Cond => "Cond".into(),
        CK::Lam => "Lambda".into(),
        CK::LamRest => "Lambda(rest-parameter-only)".into(),
        CK::LamOpt => "Lambda(optional-parameter-only)".into(),
        CK::LamNone => "Lambda(no-parameters)".into(),
        CK::LamMulti => "Lambda(required-optional-rest)".into(),
        CK::Assign => "Assign".into(),
        CK::Do => "Do".into(),
        CK::List => "List".into(),
        CK::Rec => "Rec".into(),
        CK::RecOddKeys => "Rec(non-identifier-keys)".into(),
    }
}

pub struct Shape {
    pub ctx: String,
    pub child: String,
    pub tree: H,
}

/// All two-level shapes (every parent kind/position x every child kind).
pub fn two_level() -> Vec<Shape> {
    let mut v = Vec::new();
    for (pk, side) in parent_kinds() {
        for ck in child_kinds() {
            // `...(x = 1)`-style oddities are still legal trees; nothing is skipped except a spread of a
            // non-expression
            let tree = mk_parent(&pk, side, mk_child(&ck));
            v.push(Shape { ctx: ctx_class(&pk, side), child: child_class(&ck), tree });
        }
    }
    v
}

/// Every two-level shape placed under a wrapper in which the printer's decision depends on something
/// further away (what follows a lambda body, a conditional's else-branch, a left operand ...).
pub fn wrapped_two_level() -> Vec<Shape> {
    let mut v = Vec::new();
    let e = || id("e");
    let wrappers: Vec<(&str, fn(H) -> H)> = vec![
        ("LambdaBody", |s| lam1("y", s)),
        ("LeftOf(+)", |s| bin(Op::Add, s, id("e"))),
        ("LeftOf(and)", |s| bin(Op::NAnd, s, id("e"))),
        ("LeftOf(via)", |s| bin(Op::Via, s, id("e"))),
        ("RightOf(^)", |s| bin(Op::Pow, id("e"), s)),
        ("CondElse", |s| H::Cond(Box::new(id("e")), Box::new(id("g")), Box::new(s))),
        ("Prefix", |s| H::Un(UOp::Neg, Box::new(s))),
        ("IndexBase", |s| H::Index(Box::new(s), Box::new(id("e")))),
        ("LambdaBodyLeftOf(and)", |s| lam1("y", bin(Op::NAnd, s, id("e")))),
        ("LambdaBodyRightOf(or)", |s| lam1("y", bin(Op::NOr, id("e"), s))),
    ];
    let _ = e;
    for sh in two_level() {
        for (wname, w) in wrappers.iter() {
            // a spread / output cannot be wrapped
            if matches!(sh.tree, H::Output(_) | H::Spread(_)) {
                continue;
            }
            v.push(Shape { ctx: format!("{}>{}", wname, sh.ctx), child: sh.child.clone(), tree: w(sh.tree.clone()) });
        }
    }
    v
}

/// The context/child classes along the first path where two trees differ (for signatures).
pub fn first_difference(a: &H, b: &H) -> (String, String) {
    fn kids(h: &H) -> Vec<(String, &H)> {
        let mut v: Vec<(String, &H)> = Vec::new();
        match h {
            H::List(xs) => xs.iter().for_each(|x| {
                if let H::Spread(e) = x {
                    v.push(("Spread".into(), &**e))
                } else {
                    v.push(("ListItem".into(), x))
                }
            }),
            H::Rec(es) => {
                for (k, val) in es {
                    match k {
                        Key::Dyn(e) => {
                            v.push(("RecDynKey".into(), &**e));
                            v.push(("RecValue".into(), val));
                        }
                        Key::Spread(e) => v.push(("Spread".into(), &**e)),
                        Key::Static(_) => v.push(("RecValue".into(), val)),
                        Key::Short(_) => {}
                    }
                }
            }
            H::Lam(_, b) => v.push(("LambdaBody".into(), &**b)),
            H::Cond(a, b, c) => {
                v.push(("CondIf".into(), &**a));
                v.push(("CondThen".into(), &**b));
                v.push(("CondElse".into(), &**c));
            }
            H::Do(ss, r) => {
                ss.iter().for_each(|s| v.push(("DoStmt".into(), s)));
                v.push(("DoRet".into(), &**r));
            }
            H::Assign(_, x) => v.push(("AssignValue".into(), &**x)),
            H::Output(x) => v.push(("Output".into(), &**x)),
            H::Call(f, a) => {
                v.push(("PostfixBase(call)".into(), &**f));
                a.iter().for_each(|x| {
                    if let H::Spread(e) = x {
                        v.push(("Spread".into(), &**e))
                    } else {
                        v.push(("CallArg".into(), x))
                    }
                });
            }
            H::Index(a, b) => {
                v.push(("PostfixBase(index)".into(), &**a));
                v.push(("IndexIdx".into(), &**b));
            }
            H::Field(a, _) => v.push(("PostfixBase(field)".into(), &**a)),
            H::Bin(o, a, b) => {
                let w = if o.is_word() { "w" } else { "" };
                v.push((format!("BinL(L{}{})", o.level(), w), &**a));
                v.push((format!("BinR(L{}{})", o.level(), w), &**b));
            }
            H::Un(_, e) => v.push(("Prefix".into(), &**e)),
            H::Fact(e) => v.push(("PostfixBase(fact)".into(), &**e)),
            H::Spread(e) => v.push(("Spread".into(), &**e)),
            _ => {}
        }
        v
    }
    fn class(h: &H) -> String {
        match h {
            H::Bin(o, ..) => format!("Bin(L{}{})", o.level(), if o.is_word() { "w" } else { "" }),
            H::Un(UOp::Neg, e) if matches!(&**e, H::Num(_)) => "NegLiteral".into(),
            H::Un(..) => "Prefix".into(),
            other => other.kind(),
        }
    }
    // walk `a` (the intended tree); find the deepest context in which the subtree of `a` is not
    // reproduced in `b`
    fn walk(a: &H, b: &H, ctx: &str) -> Option<(String, String)> {
        if a == b {
            return None;
        }
        let ka = kids(a);
        let kb = kids(b);
        let same_head = std::mem::discriminant(a) == std::mem::discriminant(b)
            && ka.len() == kb.len()
            && match (a, b) {
                (H::Bin(x, ..), H::Bin(y, ..)) => x == y,
                (H::Un(x, _), H::Un(y, _)) => x == y,
                _ => true,
            };
        if same_head {
            for ((ca, xa), (_, xb)) in ka.iter().zip(kb.iter()) {
                if let Some(r) = walk(xa, xb, ca) {
                    return Some(r);
                }
            }
        }
        // heads differ here: the child `a` in context `ctx` was not preserved; report the kind of the
        // first compound child of `a` too, because a lost parenthesis shows one level up
        Some((ctx.to_string(), class(a)))
    }
    match walk(a, b, "Top") {
        Some((ctx, child)) => {
            if ctx == "Top" {
                // the root itself changed shape: describe root -> its first compound child
                for (c, k) in kids(a) {
                    if !matches!(k, H::Id(_) | H::Num(_) | H::Str(_) | H::Bool(_) | H::Null | H::BuiltIn(_) | H::InRef(_)) {
                        return (c, class(k));
                    }
                }
            }
            (ctx, child)
        }
        None => ("-".into(), "-".into()),
    }
}
