//! JSONL event sink of the probe (stdout) + per-run counters.
//!
//! Event kinds (field "t"):
//!   viol    - a violation found by an in-process monitor: {sig, what, case}
//!   sample  - one explored case written out in full
//!   rec     - a record for an offline checker (exact arithmetic etc.)
//!   obs     - an observation that is not a verdict
//!   stats   - final counters of this shard

use serde_json::{Value as J, json};
use std::collections::{BTreeMap, HashSet};
use std::io::Write;

pub struct Sink {
    out: std::io::BufWriter<std::io::Stdout>,
    pub prop: String,
    pub evaluations: u64,
    pub nontrivial: u64,
    hashes: HashSet<u64>,
    hash_file: Option<std::io::BufWriter<std::fs::File>>,
    pub violations: u64,
    viol_by_sig: BTreeMap<String, u64>,
    pub counters: BTreeMap<String, u64>,
    samples_left: usize,
    max_viol_per_sig: u64,
}

pub fn fnv(s: &str) -> u64 {
    let mut h: u64 = 0xcbf29ce484222325;
    for b in s.bytes() {
        h ^= b as u64;
        h = h.wrapping_mul(0x100000001b3);
    }
    h
}

impl Sink {
    pub fn new(prop: &str, hash_path: Option<&str>) -> Sink {
        Sink {
            out: std::io::BufWriter::new(std::io::stdout()),
            prop: prop.to_string(),
            evaluations: 0,
            nontrivial: 0,
            hashes: HashSet::new(),
            hash_file: hash_path.map(|p| std::io::BufWriter::new(std::fs::File::create(p).expect("hash file"))),
            violations: 0,
            viol_by_sig: BTreeMap::new(),
            counters: BTreeMap::new(),
            samples_left: 6,
            max_viol_per_sig: 3,
        }
    }
    fn emit(&mut self, j: J) {
        let _ = writeln!(self.out, "{}", j);
    }
    pub fn flush(&mut self) {
        let _ = self.out.flush();
        if let Some(f) = self.hash_file.as_mut() {
            let _ = f.flush();
        }
    }
    /// Count one executed case. `key` identifies the case structurally (distinctness),
    /// `nontrivial` is the per-property rule.
    pub fn case(&mut self, key: &str, nontrivial: bool) {
        self.evaluations += 1;
        if nontrivial {
            self.nontrivial += 1;
            let h = fnv(key);
            if self.hashes.insert(h) {
                if let Some(f) = self.hash_file.as_mut() {
                    let _ = writeln!(f, "{:016x}", h);
                }
            }
        }
    }
    pub fn count(&mut self, name: &str, n: u64) {
        *self.counters.entry(name.to_string()).or_insert(0) += n;
    }
    pub fn want_sample(&self) -> bool {
        self.samples_left > 0
    }
    pub fn sample(&mut self, case: J) {
        if self.samples_left > 0 {
            self.samples_left -= 1;
            self.emit(json!({"t": "sample", "case": case}));
        }
    }
    pub fn sample_force(&mut self, case: J) {
        self.emit(json!({"t": "sample", "case": case}));
    }
    pub fn viol(&mut self, sig: &str, what: &str, case: J) {
        self.violations += 1;
        let n = self.viol_by_sig.entry(sig.to_string()).or_insert(0);
        *n += 1;
        if *n <= self.max_viol_per_sig {
            let prop = self.prop.clone();
            self.emit(json!({"t": "viol", "prop": prop, "sig": sig, "what": what, "case": case}));
        }
    }
    /// violation attributed to another property (shared invariant monitors)
    pub fn viol_for(&mut self, prop: &str, sig: &str, what: &str, case: J) {
        self.violations += 1;
        let key = format!("{}:{}", prop, sig);
        let n = self.viol_by_sig.entry(key).or_insert(0);
        *n += 1;
        if *n <= self.max_viol_per_sig {
            self.emit(json!({"t": "viol", "prop": prop, "sig": sig, "what": what, "case": case}));
        }
    }
    pub fn rec(&mut self, j: J) {
        self.emit(j);
    }
    pub fn obs(&mut self, key: &str, detail: J) {
        let k = format!("obs:{}", key);
        let n = self.counters.entry(k).or_insert(0);
        *n += 1;
        if *n <= 3 {
            self.emit(json!({"t": "obs", "key": key, "detail": detail}));
        }
    }
    pub fn finish(mut self) {
        let sigs: BTreeMap<String, u64> = self.viol_by_sig.clone();
        let j = json!({
            "t": "stats",
            "evaluations": self.evaluations,
            "nontrivial": self.nontrivial,
            "distinct_nontrivial": self.hashes.len(),
            "violations": self.violations,
            "viol_by_sig": sigs,
            "counters": self.counters,
        });
        self.emit(j);
        self.flush();
    }
}
