//! bvh - blots verification harness: generators, reference models and monitors that run the real
//! `blots-core` in-process. See /verif/DESIGN.md.
pub mod gens;
pub mod hexpr;
pub mod model;
pub mod out;
pub mod rng;
pub mod rt;
pub mod shapes;

pub mod props;

/// The real `blots-wasm` driver source, compiled into the harness (the crate itself is a cdylib). On a native
/// target its hand-over to the JS host panics in the wasm-bindgen stubs; hook H6 reports the text just before.
#[allow(dead_code, unused_imports, clippy::all)]
#[path = "/repo/blots-wasm/src/lib.rs"]
pub mod wasm_driver;

use std::collections::HashMap;

#[derive(Clone, Debug)]
pub struct Ctx {
    pub seed: u64,
    pub quick: bool,
    pub shard_i: u64,
    pub shard_n: u64,
    pub opts: HashMap<String, String>,
}

impl Ctx {
    pub fn mine(&self, index: u64) -> bool {
        index % self.shard_n == self.shard_i
    }
    pub fn opt(&self, k: &str) -> Option<&str> {
        self.opts.get(k).map(|s| s.as_str())
    }
    pub fn opt_u64(&self, k: &str, default: u64) -> u64 {
        self.opt(k).and_then(|s| s.parse().ok()).unwrap_or(default)
    }
    /// quick / thorough budget
    pub fn budget(&self, quick: u64, thorough: u64) -> u64 {
        if self.quick { quick } else { thorough }
    }
}
