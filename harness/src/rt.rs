//! Running the real library: sessions (one shared heap + environment), statement-at-a-time
//! evaluation exactly like the CLI / REPL drivers do it, panic capture, reference values.

use blots_core::ast::{Expr, Spanned, SpannedExpr};
use blots_core::environment::Environment;
use blots_core::error::RuntimeError;
use blots_core::expressions::{evaluate_pairs, pairs_to_expr, pairs_to_expr_with_comments};
use blots_core::formatter::{format_statement_preserving_comments, join_statements_with_spacing};
use blots_core::functions::clear_function_call_stats;
use blots_core::heap::{Heap, HeapPointer, HeapValue, IterablePointer};
use blots_core::parser::{Rule, get_pairs};
use blots_core::values::{LambdaArg, Value};
use indexmap::IndexMap;
use std::cell::RefCell;
use std::panic::{AssertUnwindSafe, catch_unwind};
use std::rc::Rc;

use crate::hexpr::{self, H};

// ------------------------------------------------------------------------------------------------
// panic capture

thread_local! {
    static LAST_PANIC: RefCell<Option<String>> = const { RefCell::new(None) };
}

/// Install a panic hook that records message + location per thread and prints nothing.
pub fn install_quiet_panic_hook() {
    std::panic::set_hook(Box::new(|info| {
        let msg = if let Some(s) = info.payload().downcast_ref::<&str>() {
            s.to_string()
        } else if let Some(s) = info.payload().downcast_ref::<String>() {
            s.clone()
        } else {
            "<non-string panic payload>".to_string()
        };
        let loc = info
            .location()
            .map(|l| format!("{}:{}", l.file(), l.line()))
            .unwrap_or_else(|| "?".to_string());
        LAST_PANIC.with(|p| *p.borrow_mut() = Some(format!("{} @ {}", msg, loc)));
    }));
}

/// Run `f`, turning a panic into `Err(message @ file:line)`.
pub fn guard<T>(f: impl FnOnce() -> T) -> Result<T, String> {
    LAST_PANIC.with(|p| *p.borrow_mut() = None);
    match catch_unwind(AssertUnwindSafe(f)) {
        Ok(v) => Ok(v),
        Err(_) => Err(LAST_PANIC
            .with(|p| p.borrow_mut().take())
            .unwrap_or_else(|| "<panic without message>".to_string())),
    }
}

/// Run a closure on a fresh thread with an explicit stack size (default 8 MiB = CLI main thread).
pub fn on_big_stack<T: Send + 'static>(bytes: usize, f: impl FnOnce() -> T + Send + 'static) -> Result<T, String> {
    let h = std::thread::Builder::new()
        .stack_size(bytes)
        .spawn(f)
        .map_err(|e| format!("spawn failed: {}", e))?;
    h.join().map_err(|_| "worker thread panicked".to_string())
}

pub const MAIN_STACK: usize = 8 * 1024 * 1024;

// ------------------------------------------------------------------------------------------------
// outcomes

#[derive(Clone, Debug)]
pub enum Out {
    Ok(Value),
    Err(ErrInfo),
    Panic(String),
}

#[derive(Clone, Debug)]
pub struct ErrInfo {
    pub message: String,
    pub span: Option<(usize, usize, usize, usize)>,
    pub source: Option<Rc<str>>,
    /// `Display` of the error (ariadne report), rendered only when `set_render_errors(true)`:
    /// Ok(text) or Err(panic message)
    pub rendered: Option<Result<String, String>>,
}

thread_local! {
    static RENDER_ERRORS: std::cell::Cell<bool> = const { std::cell::Cell::new(false) };
}

/// C01: also run `Display for RuntimeError` on every error that is produced.
pub fn set_render_errors(on: bool) {
    RENDER_ERRORS.with(|r| r.set(on));
}

impl Out {
    pub fn is_ok(&self) -> bool {
        matches!(self, Out::Ok(_))
    }
    pub fn ok(&self) -> Option<Value> {
        match self {
            Out::Ok(v) => Some(*v),
            _ => None,
        }
    }
    pub fn status(&self) -> &'static str {
        match self {
            Out::Ok(_) => "ok",
            Out::Err(_) => "err",
            Out::Panic(_) => "panic",
        }
    }
    pub fn msg(&self) -> String {
        match self {
            Out::Ok(_) => String::new(),
            Out::Err(e) => e.message.clone(),
            Out::Panic(m) => format!("PANIC: {}", m),
        }
    }
}

fn err_info(e: &RuntimeError) -> ErrInfo {
    let rendered = if RENDER_ERRORS.with(|r| r.get()) { Some(guard(|| format!("{}", e))) } else { None };
    ErrInfo {
        message: e.message.clone(),
        span: e.span.map(|s| (s.start_byte, s.end_byte, s.start_line, s.start_col)),
        source: e.source.clone(),
        rendered,
    }
}

// ------------------------------------------------------------------------------------------------
// sessions

pub struct Sess {
    pub heap: Rc<RefCell<Heap>>,
    pub env: Rc<Environment>,
    pub outputs: RefCell<IndexMap<String, Value>>,
}

#[derive(Debug)]
pub struct StmtOut {
    pub out: Out,
    /// name declared with `output`, if the statement was an output declaration
    pub output_name: Option<String>,
}

impl Sess {
    /// Fresh heap + environment with `inputs` bound to an empty record (as the CLI always does).
    pub fn new() -> Sess {
        clear_function_call_stats();
        let heap = Rc::new(RefCell::new(Heap::new()));
        let env = Rc::new(Environment::new());
        let inputs = heap.borrow_mut().insert_record(IndexMap::new());
        env.insert("inputs".to_string(), inputs);
        Sess { heap, env, outputs: RefCell::new(IndexMap::new()) }
    }

    /// Fresh heap + environment with `inputs` bound to the record the CLI builds from one JSON object (every field converted
    /// on its own, in order, then the record inserted - so the record's heap cell comes after the cells of its fields).
    pub fn with_inputs(doc: &serde_json::Value) -> Sess {
        clear_function_call_stats();
        let heap = Rc::new(RefCell::new(Heap::new()));
        let env = Rc::new(Environment::new());
        let mut fields = IndexMap::new();
        if let serde_json::Value::Object(m) = doc {
            for (k, v) in m.iter() {
                if let Ok(val) = blots_core::values::SerializableValue::from_json(v).to_value(&mut heap.borrow_mut()) {
                    fields.insert(k.clone(), val);
                }
            }
        }
        let inputs = heap.borrow_mut().insert_record(fields);
        env.insert("inputs".to_string(), inputs);
        Sess { heap, env, outputs: RefCell::new(IndexMap::new()) }
    }

    pub fn bind(&self, name: &str, v: Value) {
        self.env.insert(name.to_string(), v);
    }

    /// Parse `src`; evaluate every statement in order like `evaluate_source` in the CLI, except that
    /// evaluation continues after a failing statement (REPL behaviour) unless `stop_on_err`.
    pub fn run(&self, src: &str, stop_on_err: bool) -> Result<Vec<StmtOut>, String> {
        let mut outs = Vec::new();
        let pairs = match guard(|| get_pairs(src)) {
            Ok(Ok(p)) => p,
            Ok(Err(e)) => return Err(format!("{}", e)),
            Err(p) => {
                outs.push(StmtOut { out: Out::Panic(p), output_name: None });
                return Ok(outs);
            }
        };
        for pair in pairs {
            if pair.as_rule() != Rule::statement {
                continue;
            }
            let Some(inner) = pair.into_inner().next() else { continue };
            match inner.as_rule() {
                Rule::expression => {
                    let o = self.eval_pairs(inner.into_inner(), src);
                    let failed = !o.is_ok();
                    outs.push(StmtOut { out: o, output_name: None });
                    if failed && stop_on_err {
                        break;
                    }
                }
                Rule::output_declaration => {
                    let mut name = None;
                    for p in inner.clone().into_inner() {
                        match p.as_rule() {
                            Rule::identifier => {
                                name = Some(p.as_str().to_string());
                                break;
                            }
                            Rule::assignment => {
                                name = p.into_inner().next().map(|i| i.as_str().to_string());
                                break;
                            }
                            _ => {}
                        }
                    }
                    let o = self.eval_pairs(inner.into_inner(), src);
                    if let (Out::Ok(v), Some(n)) = (&o, &name) {
                        self.outputs.borrow_mut().insert(n.clone(), *v);
                    }
                    let failed = !o.is_ok();
                    outs.push(StmtOut { out: o, output_name: name });
                    if failed && stop_on_err {
                        break;
                    }
                }
                _ => {}
            }
        }
        clear_function_call_stats();
        Ok(outs)
    }

    fn eval_pairs(&self, pairs: pest::iterators::Pairs<Rule>, src: &str) -> Out {
        let heap = Rc::clone(&self.heap);
        let env = Rc::clone(&self.env);
        match guard(move || evaluate_pairs(pairs, heap, env, 0, src)) {
            Ok(Ok(v)) => Out::Ok(v),
            Ok(Err(e)) => Out::Err(err_info(&e)),
            Err(p) => Out::Panic(p),
        }
    }

    /// Evaluate a one-statement source; a parse error is reported as `Out::Err`.
    pub fn eval(&self, src: &str) -> Out {
        match self.run(src, false) {
            Ok(mut v) => {
                if v.len() == 1 {
                    v.pop().unwrap().out
                } else if v.is_empty() {
                    Out::Err(ErrInfo { message: "<no statement>".into(), span: None, source: None, rendered: None })
                } else {
                    // several statements: result of the last
                    v.pop().unwrap().out
                }
            }
            Err(e) => Out::Err(ErrInfo { message: format!("PARSE: {}", e), span: None, source: None, rendered: None }),
        }
    }

    pub fn rval(&self, v: &Value) -> RVal {
        rval(v, &self.heap.borrow())
    }
    pub fn rout(&self, o: &Out) -> ROut {
        match o {
            Out::Ok(v) => ROut::Ok(self.rval(v)),
            Out::Err(e) => ROut::Err(e.message.clone()),
            Out::Panic(p) => ROut::Panic(p.clone()),
        }
    }
    pub fn heap_len(&self) -> usize {
        // Heap has no public len(); probe by get()
        let h = self.heap.borrow();
        let mut lo = 0usize;
        let mut hi = 1usize;
        while h.get(hi).is_some() {
            lo = hi;
            hi *= 2;
        }
        // invariant: get(lo) is Some (cell 0 always exists), get(hi) is None
        while hi - lo > 1 {
            let mid = (lo + hi) / 2;
            if h.get(mid).is_some() {
                lo = mid
            } else {
                hi = mid
            }
        }
        hi
    }
}

impl Default for Sess {
    fn default() -> Self {
        Sess::new()
    }
}

// ------------------------------------------------------------------------------------------------
// parsing helpers

/// Parse every statement of `src` into the harness tree; `Err` on parse / conversion failure.
/// Standalone comment statements are skipped.
pub fn parse_program(src: &str) -> Result<Vec<H>, String> {
    let exprs = parse_program_ast(src, false)?;
    Ok(exprs.iter().map(hexpr::from_expr).collect())
}

pub fn parse_program_ast(src: &str, with_comments: bool) -> Result<Vec<SpannedExpr>, String> {
    let r = guard(|| -> Result<Vec<SpannedExpr>, String> {
        let pairs = get_pairs(src).map_err(|e| format!("parse: {}", e))?;
        let mut v = Vec::new();
        for pair in pairs {
            if pair.as_rule() != Rule::statement {
                continue;
            }
            let Some(inner) = pair.into_inner().next() else { continue };
            let conv = |p: pest::iterators::Pairs<Rule>| {
                if with_comments { pairs_to_expr_with_comments(p) } else { pairs_to_expr(p) }
            };
            match inner.as_rule() {
                Rule::expression => v.push(conv(inner.into_inner()).map_err(|e| format!("ast: {}", e))?),
                Rule::output_declaration => {
                    let e = conv(inner.into_inner()).map_err(|e| format!("ast: {}", e))?;
                    v.push(Spanned::dummy(Expr::Output { expr: Box::new(e) }));
                }
                _ => {}
            }
        }
        Ok(v)
    });
    match r {
        Ok(x) => x,
        Err(p) => Err(format!("PANIC: {}", p)),
    }
}

/// The library formatting driver: mirrors `blots-wasm::format_blots` statement for statement
/// (which cannot be executed natively), using the real `format_expr` and
/// `join_statements_with_spacing`.
pub fn format_source_lib(src: &str, width: Option<usize>) -> Result<String, String> {
    let r = guard(|| -> Result<String, String> {
        let pairs = get_pairs(src).map_err(|e| format!("parse: {}", e))?;
        let mut stmts: Vec<(String, usize, usize)> = Vec::new();
        for pair in pairs {
            if pair.as_rule() != Rule::statement {
                continue;
            }
            let start_line = pair.as_span().start_pos().line_col().0;
            let end_line = pair.as_span().end_pos().line_col().0;
            let mut inner = pair.into_inner();
            if let Some(first) = inner.next() {
                let formatted = match first.as_rule() {
                    Rule::comment => first.as_str().to_string(),
                    Rule::output_declaration => {
                        let original = first.as_str();
                        let e = pairs_to_expr_with_comments(first.into_inner()).map_err(|e| format!("ast: {}", e))?;
                        let o = Spanned::dummy(Expr::Output { expr: Box::new(e) });
                        format_statement_preserving_comments(&o, original, width, stmts.is_empty())
                    }
                    _ => {
                        let original = first.as_str();
                        let e = pairs_to_expr_with_comments(first.into_inner()).map_err(|e| format!("ast: {}", e))?;
                        format_statement_preserving_comments(&e, original, width, stmts.is_empty())
                    }
                };
                let fin = match inner.next() {
                    Some(c) if c.as_rule() == Rule::comment => format!("{}  {}", formatted, c.as_str()),
                    _ => formatted,
                };
                stmts.push((fin, start_line, end_line));
            }
        }
        if stmts.is_empty() {
            return Err("no statements".to_string());
        }
        Ok(join_statements_with_spacing(&stmts))
    });
    match r {
        Ok(x) => x,
        Err(p) => Err(format!("PANIC: {}", p)),
    }
}

/// The REAL `blots-wasm::format_blots` (its source is compiled into the harness as `crate::wasm_driver`). Its
/// error paths and its final hand-over go through wasm-bindgen stubs that abort a native process, so it is only
/// called on sources for which the mirror above succeeds, and hook H6 unwinds out of it with the result text.
pub fn format_source_wasm(src: &str, width: Option<usize>) -> Result<String, String> {
    use blots_core::verif_hooks;
    verif_hooks::take_driver_results();
    verif_hooks::set_stop_after_driver_result(true);
    let r = std::panic::catch_unwind(std::panic::AssertUnwindSafe(|| {
        let _ = crate::wasm_driver::format_blots(src, width);
    }));
    verif_hooks::set_stop_after_driver_result(false);
    let mut got = verif_hooks::take_driver_results();
    match (got.pop(), r) {
        (Some((_, text)), _) => Ok(text),
        (None, Err(p)) => {
            let msg = p.downcast_ref::<String>().cloned().or_else(|| p.downcast_ref::<&str>().map(|s| s.to_string())).unwrap_or_else(|| "<panic>".to_string());
            if msg.contains("wasm-bindgen imported functions") {
                // the driver was building a JsError: it reports an error to its host
                Err("DRIVER: format_blots reported an error to its host (its mirror in the harness formats this source)".to_string())
            } else {
                Err(format!("PANIC: {}", msg))
            }
        }
        (None, Ok(())) => Err("DRIVER: format_blots returned an error (its mirror in the harness formats this source)".to_string()),
    }
}

thread_local! {
    static DRIVER_JOURNAL: RefCell<Option<(std::fs::File, u64)>> = const { RefCell::new(None) };
}

/// Crash journal for calls into the real wasm driver (`--journal PATH`): the source is appended before the call, so
/// that a process death inside the driver (its error paths abort a native process) is attributed to its input.
pub fn open_driver_journal(path: Option<&str>) {
    if let Some(p) = path {
        if let Ok(f) = std::fs::OpenOptions::new().create(true).append(true).open(p) {
            DRIVER_JOURNAL.with(|j| *j.borrow_mut() = Some((f, 0)));
        }
    }
}

fn driver_journal_note(src: &str, width: Option<usize>) {
    DRIVER_JOURNAL.with(|j| {
        if let Some((f, k)) = j.borrow_mut().as_mut() {
            use std::io::Write;
            *k += 1;
            let p: String = src.chars().take(1500).collect();
            let _ = f.write_all(format!("{}\tformat_blots(width={:?}) on: {}\n", k, width, p.replace('\n', "\\n").replace('\t', "\\t")).as_bytes());
        }
    });
}

/// The library formatting path the monitors judge: the real wasm driver wherever it can run natively.
pub fn format_source_driver(src: &str, width: Option<usize>) -> Result<String, String> {
    match format_source_lib(src, width) {
        Err(e) => Err(e),
        Ok(_) => {
            driver_journal_note(src, width);
            format_source_wasm(src, width)
        }
    }
}

// ------------------------------------------------------------------------------------------------
// reference values

#[derive(Clone, Debug, PartialEq)]
pub enum RVal {
    Num(u64),
    Str(String),
    Bool(bool),
    Null,
    List(Vec<RVal>),
    Rec(Vec<(String, RVal)>),
    /// parameters, body (harness tree, fully parenthesised text), captured scope sorted by name
    Fn { args: Vec<String>, body: String, scope: Vec<(String, RVal)> },
    BuiltIn(String),
    Spread(Box<RVal>),
    Dangling(String),
}

#[derive(Clone, Debug, PartialEq)]
pub enum ROut {
    Ok(RVal),
    Err(String),
    Panic(String),
}

impl ROut {
    pub fn status(&self) -> &'static str {
        match self {
            ROut::Ok(_) => "ok",
            ROut::Err(_) => "err",
            ROut::Panic(_) => "panic",
        }
    }
    /// same status and, if ok, `same` value (messages are not compared)
    pub fn agrees(&self, o: &ROut) -> bool {
        match (self, o) {
            (ROut::Ok(a), ROut::Ok(b)) => a == b,
            (ROut::Err(_), ROut::Err(_)) => true,
            (ROut::Panic(_), ROut::Panic(_)) => true,
            _ => false,
        }
    }
    pub fn show(&self) -> String {
        match self {
            ROut::Ok(v) => format!("Ok({})", v.show()),
            ROut::Err(m) => format!("Err({})", m),
            ROut::Panic(m) => format!("Panic({})", m),
        }
    }
}

pub fn rval(v: &Value, heap: &Heap) -> RVal {
    rval_d(v, heap, 0)
}

fn rval_d(v: &Value, heap: &Heap, depth: usize) -> RVal {
    if depth > 200 {
        return RVal::Dangling("too deep".into());
    }
    match v {
        Value::Number(n) => RVal::Num(n.to_bits()),
        Value::Bool(b) => RVal::Bool(*b),
        Value::Null => RVal::Null,
        Value::BuiltIn(b) => RVal::BuiltIn(b.name().to_string()),
        Value::String(p) => match heap.get(p.index()) {
            Some(HeapValue::String(s)) => RVal::Str(s.clone()),
            _ => RVal::Dangling(format!("string@{}", p.index())),
        },
        Value::List(p) => match heap.get(p.index()) {
            Some(HeapValue::List(l)) => RVal::List(l.iter().map(|x| rval_d(x, heap, depth + 1)).collect()),
            _ => RVal::Dangling(format!("list@{}", p.index())),
        },
        Value::Record(p) => match heap.get(p.index()) {
            Some(HeapValue::Record(r)) => {
                RVal::Rec(r.iter().map(|(k, x)| (k.clone(), rval_d(x, heap, depth + 1))).collect())
            }
            _ => RVal::Dangling(format!("record@{}", p.index())),
        },
        Value::Lambda(p) => match heap.get(p.index()) {
            Some(HeapValue::Lambda(l)) => {
                let mut scope: Vec<(String, RVal)> =
                    l.scope.iter().map(|(k, x)| (k.clone(), rval_d(x, heap, depth + 1))).collect();
                scope.sort_by(|a, b| a.0.cmp(&b.0));
                RVal::Fn {
                    args: l
                        .args
                        .iter()
                        .map(|a| match a {
                            LambdaArg::Required(n) => n.clone(),
                            LambdaArg::Optional(n) => format!("{}?", n),
                            LambdaArg::Rest(n) => format!("...{}", n),
                        })
                        .collect(),
                    body: hexpr::print_full(&hexpr::from_expr(&l.body)),
                    scope,
                }
            }
            _ => RVal::Dangling(format!("lambda@{}", p.index())),
        },
        Value::Spread(ip) => {
            let inner = match ip {
                IterablePointer::List(p) => Value::List(*p),
                IterablePointer::String(p) => Value::String(*p),
                IterablePointer::Record(p) => Value::Record(*p),
            };
            RVal::Spread(Box::new(rval_d(&inner, heap, depth + 1)))
        }
    }
}

impl RVal {
    pub fn num(x: f64) -> RVal {
        RVal::Num(x.to_bits())
    }
    pub fn show(&self) -> String {
        match self {
            RVal::Num(b) => {
                let x = f64::from_bits(*b);
                format!("{:?}", x)
            }
            RVal::Str(s) => format!("{:?}", s),
            RVal::Bool(b) => b.to_string(),
            RVal::Null => "null".into(),
            RVal::List(l) => format!("[{}]", l.iter().map(|x| x.show()).collect::<Vec<_>>().join(", ")),
            RVal::Rec(r) => format!(
                "{{{}}}",
                r.iter().map(|(k, v)| format!("{:?}: {}", k, v.show())).collect::<Vec<_>>().join(", ")
            ),
            RVal::Fn { args, body, scope } => format!(
                "fn({}) => {} with {{{}}}",
                args.join(", "),
                body,
                scope.iter().map(|(k, v)| format!("{}={}", k, v.show())).collect::<Vec<_>>().join(", ")
            ),
            RVal::BuiltIn(n) => format!("<builtin {}>", n),
            RVal::Spread(x) => format!("...{}", x.show()),
            RVal::Dangling(s) => format!("<dangling {}>", s),
        }
    }
    /// The documented `.==`: numbers by value, records ignoring key order, functions structurally
    /// (parameters + body; captured scope not compared - mirrors the README).
    pub fn sem_eq(&self, o: &RVal) -> bool {
        match (self, o) {
            (RVal::Num(a), RVal::Num(b)) => f64::from_bits(*a) == f64::from_bits(*b),
            (RVal::List(a), RVal::List(b)) => a.len() == b.len() && a.iter().zip(b).all(|(x, y)| x.sem_eq(y)),
            (RVal::Rec(a), RVal::Rec(b)) => {
                a.len() == b.len()
                    && a.iter().all(|(k, v)| b.iter().any(|(k2, v2)| k == k2 && v.sem_eq(v2)))
            }
            (RVal::Fn { args: a1, body: b1, .. }, RVal::Fn { args: a2, body: b2, .. }) => a1 == a2 && b1 == b2,
            (a, b) => a == b,
        }
    }
    pub fn to_json(&self) -> serde_json::Value {
        use serde_json::json;
        match self {
            RVal::Num(b) => json!({"n": format!("{:016x}", b)}),
            RVal::Str(s) => json!({"s": s}),
            RVal::Bool(b) => json!({"b": b}),
            RVal::Null => json!({"z": null}),
            RVal::List(l) => json!({"l": l.iter().map(|x| x.to_json()).collect::<Vec<_>>()}),
            RVal::Rec(r) => json!({"r": r.iter().map(|(k, v)| json!([k, v.to_json()])).collect::<Vec<_>>()}),
            RVal::Fn { args, body, .. } => json!({"f": format!("({}) => {}", args.join(", "), body)}),
            RVal::BuiltIn(n) => json!({"bi": n}),
            RVal::Spread(x) => json!({"spread": x.to_json()}),
            RVal::Dangling(s) => json!({"dangling": s}),
        }
    }
}

// ------------------------------------------------------------------------------------------------
// building values directly (for things that have no literal: NaN, -0, inf, odd strings)

pub fn mk_value(heap: &Rc<RefCell<Heap>>, r: &RVal) -> Value {
    match r {
        RVal::Num(b) => Value::Number(f64::from_bits(*b)),
        RVal::Bool(b) => Value::Bool(*b),
        RVal::Null => Value::Null,
        RVal::Str(s) => heap.borrow_mut().insert_string(s.clone()),
        RVal::List(l) => {
            let items: Vec<Value> = l.iter().map(|x| mk_value(heap, x)).collect();
            heap.borrow_mut().insert_list(items)
        }
        RVal::Rec(r) => {
            let mut m = IndexMap::new();
            for (k, v) in r {
                let vv = mk_value(heap, v);
                m.insert(k.clone(), vv);
            }
            heap.borrow_mut().insert_record(m)
        }
        RVal::BuiltIn(n) => Value::BuiltIn(blots_core::functions::BuiltInFunction::from_ident(n).expect("builtin name")),
        RVal::Fn { .. } | RVal::Spread(_) | RVal::Dangling(_) => panic!("mk_value: not constructible directly"),
    }
}

/// Snapshot helper for the heap-immutability monitor: a cheap structural fingerprint of one cell
/// that ignores `LambdaDef.name` (the one documented in-place write).
pub fn cell_fingerprint(heap: &Heap, idx: usize) -> Option<String> {
    let c = heap.get(idx)?;
    Some(match c {
        HeapValue::String(s) => format!("S{:?}", s),
        HeapValue::List(l) => format!("L{:?}", l),
        HeapValue::Record(r) => format!("R{:?}", r.iter().collect::<Vec<_>>()),
        HeapValue::Lambda(l) => {
            let mut sc: Vec<(&String, &Value)> = l.scope.iter().collect();
            sc.sort_by(|a, b| a.0.cmp(b.0));
            format!("F{:?}|{:?}|{:?}|{}", l.args, l.body, sc, l.source.len())
        }
    })
}

#[allow(dead_code)]
fn _use(_: &dyn HeapPointer) {}
