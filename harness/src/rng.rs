//! splitmix64 PRNG - every random choice of the harness derives from VERIF_SEED through this.

#[derive(Clone, Debug)]
pub struct Rng(pub u64);

impl Rng {
    pub fn new(seed: u64) -> Rng {
        Rng(seed.wrapping_mul(0x9E3779B97F4A7C15) ^ 0xD1B54A32D192ED03)
    }
    /// Independent stream for (seed, label, index).
    pub fn derive(seed: u64, label: &str, index: u64) -> Rng {
        let mut h: u64 = 0xcbf29ce484222325;
        for b in label.bytes() {
            h ^= b as u64;
            h = h.wrapping_mul(0x100000001b3);
        }
        let mut r = Rng(seed ^ h.rotate_left(17) ^ index.wrapping_mul(0xBF58476D1CE4E5B9));
        r.next();
        r.next();
        r
    }
    pub fn next(&mut self) -> u64 {
        self.0 = self.0.wrapping_add(0x9E3779B97F4A7C15);
        let mut z = self.0;
        z = (z ^ (z >> 30)).wrapping_mul(0xBF58476D1CE4E5B9);
        z = (z ^ (z >> 27)).wrapping_mul(0x94D049BB133111EB);
        z ^ (z >> 31)
    }
    pub fn below(&mut self, n: usize) -> usize {
        if n == 0 {
            return 0;
        }
        (self.next() % n as u64) as usize
    }
    pub fn range(&mut self, lo: i64, hi_incl: i64) -> i64 {
        lo + (self.next() % ((hi_incl - lo + 1) as u64)) as i64
    }
    pub fn chance(&mut self, num: u32, den: u32) -> bool {
        (self.next() % den as u64) < num as u64
    }
    pub fn pick<'a, T>(&mut self, xs: &'a [T]) -> &'a T {
        &xs[self.below(xs.len())]
    }
    pub fn unit(&mut self) -> f64 {
        (self.next() >> 11) as f64 / (1u64 << 53) as f64
    }
    pub fn shuffle<T>(&mut self, xs: &mut [T]) {
        for i in (1..xs.len()).rev() {
            let j = self.below(i + 1);
            xs.swap(i, j);
        }
    }
}
