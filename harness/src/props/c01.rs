//! C01 - no input crashes the pipeline; error locations lie inside their text.
//!
//! Every stage a user can invoke is run under `catch_unwind` on a thread with the CLI's 8 MiB stack;
//! a panic, or an error whose span lies outside the text it carries, is a violation. A process death
//! (stack overflow, abort) is detected by the driver through the crash journal.

use crate::Ctx;
use crate::gens::{self, Gen, GenCfg, NAMES, PoolItem};
use crate::hexpr::*;
use crate::out::Sink;
use crate::rng::Rng;
use crate::rt::{self, ErrInfo, Out, Sess, format_source_lib, guard, mk_value, parse_program_ast};
use blots_core::expressions::validate_portable_value;
use blots_core::formatter::format_expr;
use blots_core::functions::BuiltInFunction;
use blots_core::heap::Heap;
use blots_core::values::{SerializableValue, Value};
use serde_json::json;
use std::io::Write;

/// Normalise a panic message for signatures: digits -> N, location -> file only.
pub fn norm_panic(p: &str) -> String {
    let (msg, loc) = match p.rfind(" @ ") {
        Some(i) => (&p[..i], &p[i + 3..]),
        None => (p, "?"),
    };
    let msg = msg.strip_prefix("PANIC: ").unwrap_or(msg);
    let mut m = String::new();
    let mut last_digit = false;
    for c in msg.chars().take(90) {
        if c.is_ascii_digit() {
            if !last_digit {
                m.push('N');
            }
            last_digit = true;
        } else {
            last_digit = false;
            m.push(if c == '\n' { ' ' } else { c });
        }
    }
    let file = loc.rsplit('/').next().unwrap_or(loc);
    let file = file.split(':').next().unwrap_or(file);
    format!("panic=\"{}\" at={}", m.trim(), file)
}

struct Journal {
    f: Option<std::fs::File>,
    k: u64,
    start: u64,
}

impl Journal {
    fn next(&mut self, payload: &str) -> bool {
        self.k += 1;
        if self.k < self.start {
            return false;
        }
        if let Some(f) = self.f.as_mut() {
            let p: String = payload.chars().take(1500).collect();
            let line = format!("{}\t{}\n", self.k, p.replace('\n', "\\n").replace('\t', "\\t"));
            let _ = f.write_all(line.as_bytes());
        }
        true
    }
}

/// M-span: a reported error location lies inside the text it refers to.
fn check_span(sink: &mut Sink, e: &ErrInfo, what: &str, case: &serde_json::Value) {
    if let (Some((sb, eb, line, _col)), Some(src)) = (e.span, e.source.as_ref()) {
        let ok = sb <= eb && eb <= src.len() && src.is_char_boundary(sb) && src.is_char_boundary(eb) && line >= 1;
        if !ok {
            let mut c = case.clone();
            c["span"] = json!([sb, eb, line]);
            c["source_len"] = json!(src.len());
            c["message"] = json!(e.message);
            sink.viol(&format!("span-outside-text {}", what), "a reported error location lies outside the text it refers to", c);
        }
    }
    if let Some(Err(p)) = &e.rendered {
        let mut c = case.clone();
        c["panic"] = json!(p);
        c["message"] = json!(e.message);
        sink.viol(&format!("stage=render-error {} {}", what, norm_panic(p)), "rendering an error report panicked", c);
    }
}

fn value_stages(sink: &mut Sink, sess: &Sess, v: &Value, case: &serde_json::Value) {
    let heap = sess.heap.borrow();
    let mut stage = |name: &str, r: Result<(), String>| {
        if let Err(p) = r {
            let mut c = case.clone();
            c["panic"] = json!(p);
            sink.viol(&format!("stage={} {}", name, norm_panic(&p)), "a serialisation / rendering stage panicked", c);
        }
    };
    stage("validate_portable", guard(|| { let _ = validate_portable_value(v, &heap, &sess.env); }));
    stage("serialise-json", guard(|| {
        if let Ok(sv) = SerializableValue::from_value(v, &heap) {
            let j = sv.to_json();
            let _ = serde_json::to_string(&j);
        }
    }));
    stage("stringify", guard(|| {
        let _ = v.stringify_internal(&heap);
        let _ = v.stringify_external(&heap);
        let _ = v.stringify_for_display(&heap);
        let _ = format!("{}", v);
    }));
}

const FMT_WIDTHS: [Option<usize>; 5] = [Some(1), Some(7), Some(40), Some(80), None];

/// run every stage on a source text
fn pipeline(sink: &mut Sink, src: &str, origin: &str, evaluate: bool, nontrivial_out: &mut bool) {
    let case = json!({"origin": origin, "source": src});
    let sess = Sess::new();
    // inputs present, as in the CLI
    let _ = sess.eval("seed_value = 7");
    let ran = if evaluate {
        sess.run(src, false)
    } else {
        // compute-heavy corpus entries (benchmarks): parse / AST / format stages only
        match guard(|| blots_core::parser::get_pairs(src).map(|_| ())) {
            Ok(Ok(())) => Ok(Vec::new()),
            Ok(Err(e)) => Err(e.to_string()),
            Err(p) => {
                let mut c = case.clone();
                c["panic"] = json!(p);
                sink.viol(&format!("stage=parse {}", norm_panic(&p)), "the parser panicked", c);
                Err(String::new())
            }
        }
    };
    match ran {
        Err(_parse_error) => {}
        Ok(outs) => {
            *nontrivial_out = true;
            for o in &outs {
                match &o.out {
                    Out::Ok(v) => value_stages(sink, &sess, v, &case),
                    Out::Err(e) => check_span(sink, e, "origin=evaluate", &case),
                    Out::Panic(p) => {
                        let mut c = case.clone();
                        c["panic"] = json!(p);
                        sink.viol(&format!("stage=evaluate {}", norm_panic(p)), "evaluation panicked", c);
                    }
                }
            }
            // formatter
            match parse_program_ast(src, true) {
                Ok(asts) => {
                    for a in &asts {
                        for w in FMT_WIDTHS.iter() {
                            if let Err(p) = guard(|| format_expr(a, *w)) {
                                let mut c = case.clone();
                                c["panic"] = json!(p);
                                c["width"] = json!(w);
                                sink.viol(&format!("stage=format_expr {}", norm_panic(&p)), "the formatter panicked", c);
                                break;
                            }
                        }
                    }
                }
                Err(e) if e.starts_with("PANIC") => {
                    let mut c = case.clone();
                    c["panic"] = json!(e);
                    sink.viol(&format!("stage=to-ast {}", norm_panic(&e)), "AST conversion panicked", c);
                }
                Err(_) => {}
            }
            // token stream (what the web editor's tokenize entry point hands out): positions inside the text
            match guard(|| {
                blots_core::parser::get_tokens(src).map(|ts| {
                    ts.iter()
                        .map(|t| match t {
                            blots_core::parser::Token::Start { pos, .. } | blots_core::parser::Token::End { pos, .. } => pos.pos(),
                        })
                        .collect::<Vec<usize>>()
                })
            }) {
                Ok(Ok(positions)) => {
                    if let Some(bad) = positions.iter().find(|p| **p > src.len() || !src.is_char_boundary(**p)) {
                        let mut c = case.clone();
                        c["position"] = json!(bad);
                        sink.viol("token-position-outside-text", "a token position lies outside the text / inside a character", c);
                    }
                }
                Ok(Err(_)) => {}
                Err(p) => {
                    let mut c = case.clone();
                    c["panic"] = json!(p);
                    sink.viol(&format!("stage=tokens {}", norm_panic(&p)), "the tokenizer panicked", c);
                }
            }
            // the real wasm format driver (where it can run natively) and its mirror
            if let Err(e) = crate::rt::format_source_driver(src, None) {
                if e.starts_with("PANIC") {
                    let mut c = case.clone();
                    c["panic"] = json!(e);
                    sink.viol(&format!("stage=format-driver {}", norm_panic(&e)), "the formatting driver panicked", c);
                }
            }
            if let Err(e) = format_source_lib(src, None) {
                if e.starts_with("PANIC") {
                    let mut c = case.clone();
                    c["panic"] = json!(e);
                    sink.viol(&format!("stage=format-driver {}", norm_panic(&e)), "the formatting driver panicked", c);
                }
            }
        }
    }
}

fn bind_pool(sess: &Sess, pool: &[PoolItem]) -> Vec<String> {
    let mut names = Vec::new();
    for (i, it) in pool.iter().enumerate() {
        let name = format!("q{}", i);
        match it {
            PoolItem::Direct(v) => {
                let val = mk_value(&sess.heap, v);
                sess.bind(&name, val);
            }
            PoolItem::Src(s) => {
                let _ = sess.eval(&format!("{} = {}", name, s));
            }
        }
        names.push(name);
    }
    names
}

fn too_slow_factorial(it: &PoolItem) -> bool {
    // a factorial operand above 170 is a minutes-long loop: a watchdog case, not a crash class
    matches!(it, PoolItem::Direct(rt::RVal::Num(b)) if f64::from_bits(*b) > 170.0 && f64::from_bits(*b).is_finite())
}

fn eval_case(sink: &mut Sink, sess: &Sess, src: &str, sig_prefix: &str, desc: serde_json::Value, past_arity: &mut bool) {
    let o = sess.eval(src);
    match &o {
        Out::Ok(v) => {
            *past_arity = true;
            value_stages(sink, sess, v, &desc);
        }
        Out::Err(e) => {
            if !e.message.contains("arguments, but") {
                *past_arity = true;
            }
            check_span(sink, e, sig_prefix, &desc);
        }
        Out::Panic(p) => {
            *past_arity = true;
            let mut c = desc.clone();
            c["panic"] = json!(p);
            sink.viol(&format!("{} {}", sig_prefix, norm_panic(p)), "evaluation panicked", c);
        }
    }
}

/// Long lists: algorithms inside the built-ins switch strategy with length (insertion sort up to 20 elements,
/// merge runs above; hash tables growing), so every built-in is also applied to lists of 21-300 heterogeneous and
/// nested elements (mixed scalars, one- and two-element lists of them, records, NaN, null).
fn long_list(r: &mut Rng) -> crate::rt::RVal {
    use crate::rt::RVal;
    let scalars: Vec<RVal> = vec![
        RVal::Null, RVal::num(f64::NAN), RVal::num(0.0), RVal::num(-0.0), RVal::num(1.0), RVal::num(18.0), RVal::num(30.0), RVal::num(48.0), RVal::num(50.0),
        RVal::num(-3.0), RVal::num(0.5), RVal::num(f64::INFINITY), RVal::Str("a".into()), RVal::Str("b".into()), RVal::Str("".into()), RVal::Bool(true), RVal::Bool(false),
    ];
    let len = *r.pick(&[21usize, 24, 33, 50, 64, 100, 300]);
    let mode = r.below(6);
    // a sub-pool keeps incomparable pairs frequent
    let k = 2 + r.below(5);
    let sub: Vec<RVal> = (0..k).map(|_| r.pick(&scalars).clone()).collect();
    let items = (0..len)
        .map(|_| {
            let s = r.pick(&sub).clone();
            let wrap = match mode {
                0 => 0,
                1 => 1,
                2 => 2,
                3 => 3,
                _ => r.below(5),
            };
            match wrap {
                0 => s,
                1 => RVal::List(vec![s]),
                2 => RVal::List(vec![r.pick(&sub).clone(), s]),
                3 => RVal::Rec(vec![("k".to_string(), s)]),
                _ => RVal::List(vec![RVal::List(vec![s])]),
            }
        })
        .collect();
    RVal::List(items)
}

/// Every parameter-list shape (0-3 required, 0-2 optional, optional rest) called with 0-7 arguments, directly and as a
/// callback of the operators and built-ins that pass one / two / three arguments: argument binding must end in a value or a
/// reported error for every count.
fn part_lambda_calls(ctx: &Ctx, sink: &mut Sink, j: &mut Journal) {
    if ctx.shard_i != 0 {
        return;
    }
    let sess = Sess::new();
    let mut calls = 0u64;
    for req in 0..4usize {
        for opt in 0..3usize {
            for rest in 0..2usize {
                let mut ps: Vec<String> = (0..req).map(|k| format!("r{}", k)).collect();
                ps.extend((0..opt).map(|k| format!("o{}?", k)));
                if rest == 1 {
                    ps.push("...rs".to_string());
                }
                let names: Vec<String> = ps.iter().map(|p| p.trim_end_matches('?').trim_start_matches("...").to_string()).collect();
                let lam = format!("(({}) => [{}])", ps.join(", "), names.join(", "));
                let mut forms: Vec<String> = (0..8usize).map(|n| format!("{}({})", lam, (0..n).map(|k| k.to_string()).collect::<Vec<_>>().join(", "))).collect();
                forms.push(format!("{}(...[1, 2], ...[])", lam));
                forms.push(format!("[7, 8] via {}", lam));
                forms.push(format!("[7, 8] where {}", lam));
                forms.push(format!("7 into {}", lam));
                forms.push(format!("map([7], {})", lam));
                forms.push(format!("filter([7], {})", lam));
                forms.push(format!("reduce([7, 8], {}, 0)", lam));
                forms.push(format!("every([7], {})", lam));
                forms.push(format!("sort_by([2, 1], {})", lam));
                forms.push(format!("group_by([7], {})", lam));
                for src in forms {
                    if !j.next(&src) {
                        continue;
                    }
                    let mut past = false;
                    eval_case(sink, &sess, &src, &format!("lambda-call params=req{}opt{}rest{}", req, opt, rest), json!({"call": src}), &mut past);
                    sink.case(&format!("lamcall|{}", src), true);
                    calls += 1;
                }
            }
        }
    }
    sink.count("lambda_parameter_list_calls", calls);
}

fn part_long_lists(ctx: &Ctx, sink: &mut Sink, j: &mut Journal) {
    let sess = Sess::new();
    let all = BuiltInFunction::all();
    let nlists = ctx.budget(48, 600);
    let mut calls = 0u64;
    for li in 0..nlists {
        if !ctx.mine(li) {
            continue;
        }
        let mut r = Rng::derive(ctx.seed, "c01-long-list", li);
        let l = long_list(&mut r);
        sess.bind("LL", mk_value(&sess.heap, &l));
        let shown: String = l.show().chars().take(400).collect();
        for b in all.iter() {
            let fname = b.name();
            if fname == "print" {
                continue;
            }
            for (fi, form) in ["{}(LL)", "{}(LL, x => x)", "{}(LL, x => typeof(x))", "{}(LL, 3)", "{}(...LL)", "LL via {}", "{}(LL, (a, b) => a)"].iter().enumerate() {
                let src = form.replace("{}", fname);
                if !j.next(&format!("{} with LL = {}", src, shown)) {
                    continue;
                }
                let desc = json!({"call": src, "LL": shown, "length": match &l { crate::rt::RVal::List(v) => v.len(), _ => 0 }});
                let mut past = false;
                eval_case(sink, &sess, &src, &format!("builtin={} long-list form={}", fname, fi), desc, &mut past);
                sink.case(&format!("longlist|{}|{}|{}", li, fname, fi), past);
                calls += 1;
            }
        }
    }
    sink.count("long_list_builtin_calls", calls);
}

fn part_builtins(ctx: &Ctx, sink: &mut Sink, j: &mut Journal) {
    let pool = gens::boundary_pool();
    let sess = Sess::new();
    let names = bind_pool(&sess, &pool);
    let n = pool.len();
    let all = BuiltInFunction::all();
    let sampled = ctx.budget(3000, 40_000);
    let mut fresh_counter = 0u64;
    for (bi_idx, b) in all.iter().enumerate() {
        let fname = b.name();
        if fname == "print" {
            continue; // writes to stderr only; exercised in the grammar workload
        }
        // arity 0
        let mut run = |sink: &mut Sink, j: &mut Journal, args: &[usize], form: u8| {
            let arg_s: Vec<&str> = args.iter().map(|a| names[*a].as_str()).collect();
            let src = match form {
                0 => format!("{}({})", fname, arg_s.join(", ")),
                1 => format!("{} into {}", arg_s[0], fname),
                2 => format!("[{}] via {}", arg_s[0], fname),
                3 => format!("[{}] where {}", arg_s[0], fname),
                _ => format!("{}(...[{}])", fname, arg_s.join(", ")),
            };
            if !j.next(&src) {
                return;
            }
            // a huge but legitimate allocation request is resource exhaustion, not a crash
            let desc = json!({"call": src, "args": args.iter().map(|a| pool[*a].describe()).collect::<Vec<_>>()});
            let mut past = false;
            let key = format!("builtin|{}|{:?}|{}", fname, args, form);
            let sig = format!("builtin={} args=[{}]", fname, args.iter().map(|a| pool[*a].class()).collect::<Vec<_>>().join(","));
            eval_case(sink, &sess, &src, &sig, desc.clone(), &mut past);
            sink.case(&key, past);
            if sink.want_sample() && past && args.len() == 2 && form == 0 && bi_idx % 9 == 3 {
                sink.sample(desc);
            }
            fresh_counter += 1;
        };
        let mut idx = 0u64;
        idx += 1;
        if ctx.mine(idx + bi_idx as u64) {
            run(sink, j, &[], 0);
        }
        for a in 0..n {
            idx += 1;
            if !ctx.mine(idx + bi_idx as u64) {
                continue;
            }
            for form in 0..5u8 {
                run(sink, j, &[a], form);
            }
        }
        for a in 0..n {
            for c in 0..n {
                idx += 1;
                if !ctx.mine(idx + bi_idx as u64) {
                    continue;
                }
                run(sink, j, &[a, c], 0);
            }
        }
        // arity 3-4: sampled tuples
        for k in 0..sampled {
            idx += 1;
            if !ctx.mine(idx + bi_idx as u64) {
                continue;
            }
            let mut r = Rng::derive(ctx.seed, fname, k);
            let argc = 3 + r.below(2);
            let args: Vec<usize> = (0..argc).map(|_| r.below(n)).collect();
            let form = if r.chance(1, 6) { 4 } else { 0 };
            run(sink, j, &args, form);
        }
    }
    sink.count("builtin_calls", fresh_counter);
}

fn part_operators(ctx: &Ctx, sink: &mut Sink, j: &mut Journal) {
    let pool = gens::boundary_pool();
    let sess = Sess::new();
    let names = bind_pool(&sess, &pool);
    let n = pool.len();
    let mut idx = 0u64;
    for a in 0..n {
        // prefix / postfix / spread / unary contexts
        idx += 1;
        if ctx.mine(idx) {
            let mut forms = vec![
                format!("-{}", names[a]),
                format!("!{}", names[a]),
                format!("not {}", names[a]),
                format!("[...{}]", names[a]),
                format!("{{...{}}}", names[a]),
                format!("{}.field", names[a]),
                format!("{}()", names[a]),
                format!("if {} then 1 else 2", names[a]),
                format!("{{[{}]: 1}}", names[a]),
                format!("max(...{})", names[a]),
            ];
            if !too_slow_factorial(&pool[a]) {
                forms.push(format!("{}!", names[a]));
            }
            for src in forms {
                if !j.next(&src) {
                    continue;
                }
                let mut past = false;
                let desc = json!({"source": src, "operand": pool[a].describe()});
                eval_case(sink, &sess, &src, &format!("unary-form operand={}", pool[a].class()), desc, &mut past);
                sink.case(&format!("unary|{}", src), true);
            }
        }
        for b in 0..n {
            idx += 1;
            if !ctx.mine(idx) {
                continue;
            }
            for op in ALL_OPS.iter() {
                let src = format!("{} {} {}", names[a], op.sym(), names[b]);
                if !j.next(&src) {
                    continue;
                }
                let mut past = false;
                let desc = json!({"source": src, "left": pool[a].describe(), "right": pool[b].describe()});
                eval_case(sink, &sess, &src, &format!("operator={} operands={}/{}", op.name(), pool[a].class(), pool[b].class()), desc.clone(), &mut past);
                sink.case(&format!("binop|{}", src), true);
                if sink.want_sample() && idx % 501 == 0 {
                    sink.sample(desc);
                }
            }
            let src = format!("{}[{}]", names[a], names[b]);
            if j.next(&src) {
                let mut past = false;
                eval_case(sink, &sess, &src, &format!("index operands={}/{}", pool[a].class(), pool[b].class()), json!({"source": src, "base": pool[a].describe(), "index": pool[b].describe()}), &mut past);
                sink.case(&format!("index|{}", src), true);
            }
        }
    }
}

fn corpus() -> Vec<String> {
    corpus_flagged().into_iter().map(|(s, _)| s).collect()
}

/// (text, cheap enough to evaluate)
fn corpus_flagged() -> Vec<(String, bool)> {
    let mut v: Vec<(String, bool)> = Vec::new();
    for dir in ["/repo/examples", "/repo/benches"] {
        if let Ok(rd) = std::fs::read_dir(dir) {
            let mut paths: Vec<_> = rd.filter_map(|e| e.ok()).map(|e| e.path()).collect();
            paths.sort();
            for p in paths {
                if p.extension().map(|e| e == "blots").unwrap_or(false) {
                    if let Ok(s) = std::fs::read_to_string(&p) {
                        v.push((s, dir != "/repo/benches"));
                    }
                }
            }
        }
    }
    if let Ok(readme) = std::fs::read_to_string("/repo/README.md") {
        let mut in_code = false;
        let mut cur = String::new();
        for line in readme.lines() {
            if line.trim_start().starts_with("```") {
                if in_code && !cur.trim().is_empty() {
                    v.push((cur.clone(), true));
                }
                cur.clear();
                in_code = !in_code;
                continue;
            }
            if in_code {
                cur.push_str(line);
                cur.push('\n');
            }
        }
    }
    // string literals harvested from the repository's own tests
    if let Ok(t) = std::fs::read_to_string("/repo/blots-core/src/tests.rs") {
        let cs: Vec<char> = t.chars().collect();
        let mut i = 0;
        while i < cs.len() {
            if cs[i] == '"' {
                let mut jx = i + 1;
                let mut s = String::new();
                while jx < cs.len() && cs[jx] != '"' {
                    if cs[jx] == '\\' && jx + 1 < cs.len() {
                        match cs[jx + 1] {
                            'n' => s.push('\n'),
                            '"' => s.push('"'),
                            '\\' => s.push('\\'),
                            c => s.push(c),
                        }
                        jx += 2;
                    } else {
                        s.push(cs[jx]);
                        jx += 1;
                    }
                }
                if s.len() > 3 && s.len() < 400 {
                    v.push((s, true));
                }
                i = jx + 1;
            } else {
                i += 1;
            }
        }
    }
    v.truncate(1500);
    v
}

fn mutate(src: &str, corpus: &[String], r: &mut Rng) -> String {
    let mut cs: Vec<char> = src.chars().collect();
    let n_mut = 1 + r.below(4);
    let punct: Vec<char> = "()[]{}\"'`,.:;=+-*/%^!?<>&|#~\\ \n\t\r_$@0123456789eExXbB\u{feff}é😀".chars().collect();
    let kws = ["if", "then", "else", "do", "return", "output", "and", "or", "not", "via", "into", "where", "true", "false", "null", "=>", "...", "//", "??", ".==", "inputs", "constants", "inf"];
    for _ in 0..n_mut {
        let len = cs.len();
        match r.below(9) {
            0 if len > 0 => {
                let i = r.below(len);
                cs.remove(i);
            }
            1 => {
                let i = r.below(len + 1);
                cs.insert(i, *r.pick(&punct));
            }
            2 if len > 1 => {
                let i = r.below(len - 1);
                cs.swap(i, i + 1);
            }
            3 => {
                // splice a slice of another corpus entry
                let other: Vec<char> = r.pick(corpus).chars().collect();
                if !other.is_empty() {
                    let a = r.below(other.len());
                    let b = a + r.below((other.len() - a).min(40) + 1);
                    let i = r.below(len + 1);
                    for (k, c) in other[a..b].iter().enumerate() {
                        cs.insert(i + k, *c);
                    }
                }
            }
            4 => {
                let i = r.below(len + 1);
                let kw: Vec<char> = format!(" {} ", r.pick(&kws)).chars().collect();
                for (k, c) in kw.iter().enumerate() {
                    cs.insert(i + k, *c);
                }
            }
            5 if len > 0 => {
                // replace a digit run by a boundary literal
                if let Some(i) = (0..len).find(|i| cs[*i].is_ascii_digit()) {
                    let lit: Vec<char> = r.pick(&["1e308", "1e-320", "9007199254740993", "0x7fffffffffffffff", "0xffffffffffffffffff", "0b1", "1_000", "1e999", ".5", "1.", "00", "1e+5", "99999999999999999999999999"]).chars().collect();
                    cs.splice(i..i + 1, lit);
                }
            }
            6 if len > 0 => {
                // duplicate a random slice
                let a = r.below(len);
                let b = a + r.below((len - a).min(30) + 1);
                let sl: Vec<char> = cs[a..b].to_vec();
                let i = r.below(len + 1);
                for (k, c) in sl.iter().enumerate() {
                    cs.insert(i + k, *c);
                }
            }
            7 => {
                let i = r.below(len + 1);
                let c: Vec<char> = " // injected comment\n".chars().collect();
                for (k, ch) in c.iter().enumerate() {
                    cs.insert(i + k, *ch);
                }
            }
            _ => {
                // CRLF / BOM
                if r.chance(1, 2) {
                    let s: String = cs.iter().collect();
                    cs = s.replace('\n', "\r\n").chars().collect();
                } else {
                    cs.insert(0, '\u{feff}');
                }
            }
        }
        if cs.len() > 4000 {
            cs.truncate(4000);
        }
    }
    cs.into_iter().collect()
}

fn random_text(r: &mut Rng) -> String {
    let alphabet: Vec<&str> = vec![
        "(", ")", "[", "]", "{", "}", ",", ":", "=", "=>", "+", "-", "*", "/", "%", "^", "!", "?", "??", "<", ">", "==", ".==", "&&", "||", ".", "...", "#", "\"", "'", "//",
        "\n", " ", "\t", "a", "b", "x", "f", "1", "0", "2.5", "1e3", "0x1f", "0b10", "if ", " then ", " else ", "do ", "return ", "output ", " and ", " or ", "not ", " via ", " into ", " where ",
        "true", "false", "null", "inputs", "map", "len", "sum", "é", "😀", "\u{0}", "\r\n", "_", ";", "~", "`", "\\", "inf", "constants",
    ];
    let n = 1 + r.below(40);
    let mut s = String::new();
    for _ in 0..n {
        if r.chance(1, 12) {
            // arbitrary scalar value
            loop {
                if let Some(c) = char::from_u32((r.next() % 0x11_0000) as u32) {
                    s.push(c);
                    break;
                }
            }
        } else {
            s.push_str(*r.pick(&alphabet));
        }
    }
    s
}

/// deep nesting up to the quantifier's bound (64)
fn nested_sources() -> Vec<String> {
    let mut v = Vec::new();
    for depth in [8usize, 16, 32, 48, 64] {
        v.push(format!("{}1{}", "(".repeat(depth), ")".repeat(depth)));
        v.push(format!("{}1{}", "[".repeat(depth), "]".repeat(depth)));
        v.push(format!("{}1{}", "{a: ".repeat(depth), "}".repeat(depth)));
        v.push(format!("{}1", "-".repeat(depth)));
        v.push(format!("{}true", "!".repeat(depth)));
        v.push(format!("3{}", "!".repeat(depth.min(8))));
        v.push(format!("{}1{}", "abs(".repeat(depth), ")".repeat(depth)));
        // lambda chains deeper than 12 are judged by the complexity monitor (formatter work doubles per level)
        v.push(format!("{}1", "x => ".repeat(depth.min(12))));
        v.push(format!("{}0{}", "if true then (".repeat(depth), ") else 0".repeat(depth)));
        v.push(format!("{}1{}", "do { return ".repeat(depth), " }".repeat(depth)));
        v.push((0..depth).map(|i| format!("{} + ", i)).collect::<String>() + "1");
        v.push((0..depth).map(|_| "2 ^ ".to_string()).collect::<String>() + "1");
        v.push(format!("[1, 2, 3]{}", " via (x => x)".repeat(depth)));
        v.push(format!("a{}", "[0]".repeat(depth)));
        v.push(format!("r{}", ".k".repeat(depth)));
        v.push(format!("f{}", "(1)".repeat(depth)));
    }
    v
}

/// programs whose values form reference graphs: functions held in containers whose late-bound names lead back to the
/// container (or round a cycle of two / three containers); output validation, JSON conversion and display must all end
fn reference_sources() -> Vec<String> {
    let mut v = Vec::new();
    let containers: [&dyn Fn(&str) -> String; 6] = [
        &|f| format!("{{start: 1, next: {}}}", f),
        &|f| format!("[{}, 1]", f),
        &|f| format!("{{a: {{b: [{}]}}}}", f),
        &|f| format!("[[{}], {{k: {}}}]", f, f),
        &|f| format!("{}", f),
        &|f| format!("{{\"odd key\": {}, ...{{z: 1}}}}", f),
    ];
    let bodies: [&dyn Fn(&str) -> String; 7] = [
        &|n| format!("n => {}", n),
        &|n| format!("n => if n >= 3 then n else {}.next(n + 1)", n),
        &|n| format!("() => [{}, {}]", n, n),
        &|n| format!("(n, ...r) => {{k: {}}}", n),
        &|n| format!("n => m => {}", n),
        &|n| format!("n => do {{ t = {}; return t }}", n),
        &|n| format!("(n, o?) => typeof({}) ?? o", n),
    ];
    for out in ["", "output "] {
        for c in containers.iter() {
            for b in bodies.iter() {
                // the container's function mentions the container itself
                v.push(format!("{}counter = {}\ncounter", out, c(&b("counter"))));
                // two containers, each mentioning the other
                v.push(format!("ping = {}\n{}pong = {}\nping\npong", c(&b("pong")), out, c(&b("ping"))));
                // a ring of three, the last one an output
                v.push(format!("r1 = {}\nr2 = {}\n{}r3 = {}\n[r1, r2, r3]", c(&b("r2")), c(&b("r3")), out, c(&b("r1"))));
                // the name is bound first (captured, not late-bound), to a container holding a function that mentions a later name
                v.push(format!("base = {}\nlater = {}\n{}top = {}", c(&b("later")), c(&b("base")), out, c(&b("base"))));
            }
        }
    }
    v
}

fn part_sources(ctx: &Ctx, sink: &mut Sink, j: &mut Journal) {
    let corp_f = corpus_flagged();
    let corp: Vec<String> = corp_f.iter().map(|(s, _)| s.clone()).collect();
    sink.count("corpus_entries", corp.len() as u64);
    let mut run = |sink: &mut Sink, j: &mut Journal, src: &str, origin: &str| {
        if !j.next(src) {
            return;
        }
        let mut nt = false;
        // recursion / loops of the benchmark programs make evaluation a watchdog case, not a crash class
        let evaluate = origin != "corpus-heavy";
        pipeline(sink, src, origin, evaluate, &mut nt);
        // a sample of the sources is replayed against the real CLI binary by the driver
        if evaluate && j.k % 40 == 0 && !src.contains('\0') {
            sink.rec(json!({"t": "rec", "kind": "cli-src", "source": src}));
        }
        sink.case(&format!("{}|{}", origin, src), nt);
        if sink.want_sample() && nt && src.len() > 20 && src.len() < 300 {
            sink.sample(json!({"origin": origin, "source": src}));
        }
    };
    // the corpus itself, and deep nesting up to 64
    for (i, (c, cheap)) in corp_f.iter().enumerate() {
        if ctx.mine(i as u64) {
            run(sink, j, c, if *cheap { "corpus" } else { "corpus-heavy" });
        }
    }
    for (i, s) in nested_sources().iter().enumerate() {
        if ctx.mine(i as u64) {
            run(sink, j, s, "nested");
        }
    }
    for (i, s) in reference_sources().iter().enumerate() {
        if ctx.mine(i as u64) {
            run(sink, j, s, "reference-graph");
            if i % 7 == 0 {
                sink.rec(json!({"t": "rec", "kind": "cli-src", "source": s}));
            }
        }
    }
    // grammar-generated (well- and ill-typed)
    let ng = ctx.budget(60_000, 1_000_000);
    for i in 0..ng {
        if !ctx.mine(i) {
            continue;
        }
        let mut r = Rng::derive(ctx.seed, "c01-gen", i);
        let ill = if i % 2 == 0 { 0 } else { 150 };
        let depth = 1 + r.below(6);
        let ns = 1 + r.below(5);
        let stmts = {
            let mut g = Gen::new(&mut r, GenCfg { ill_typed_permille: ill, inputs: true, odd_strings: true, ..GenCfg::default() });
            g.program(ns, depth, &NAMES).0
        };
        let src = print_program(&stmts, if i % 3 == 0 { Mode::Full } else { Mode::Min });
        run(sink, j, &src, if ill == 0 { "generated-well-typed" } else { "generated-ill-typed" });
    }
    // comment-decorated programs: comments at every position class the grammar admits (the comment-preserving AST conversion
    // and the formatter's comment layouts run only for these), on the fixed programs (which include item-less containers)
    // and on generated ones
    {
        use crate::props::fmt::{CCLASSES, fixed_programs, inject};
        let mut k = 0u64;
        for prog in fixed_programs().iter() {
            for cls in CCLASSES.iter() {
                k += 1;
                if !ctx.mine(k) {
                    continue;
                }
                let mut r = Rng::derive(ctx.seed, "c01-comments-fixed", k);
                let (src, ncom) = inject(prog, *cls, &mut r, true);
                if ncom > 0 {
                    run(sink, j, &src, "comment-decorated");
                }
            }
        }
        let nc = ctx.budget(12_000, 300_000);
        for i in 0..nc {
            if !ctx.mine(i) {
                continue;
            }
            let mut r = Rng::derive(ctx.seed, "c01-comments", i);
            let stmts = {
                let depth = 1 + r.below(4);
                let ns = 1 + r.below(3);
                let mut g = Gen::new(&mut r, GenCfg { inputs: true, odd_strings: true, ..GenCfg::default() });
                g.program(ns, depth, &NAMES).0
            };
            let cls = CCLASSES[(i as usize / ctx.shard_n as usize) % CCLASSES.len()];
            let (src, ncom) = inject(&stmts, cls, &mut r, i % 2 == 0);
            if ncom > 0 {
                run(sink, j, &src, "comment-decorated");
            }
        }
        // hand-written: brackets holding nothing but comments
        for (i, src) in ["x = {\n  // only a comment\n}", "y = [\n  // a\n  // b\n]", "f({\n // c\n}, [\n // d\n])", "z = {// c\n}", "w = [// c\n]", "do {\n  // c\n  return {\n    // d\n  }\n}", "q = {\n  // c\n  ...r\n}", "{\n // c\n}.k"].iter().enumerate() {
            if ctx.mine(i as u64) {
                run(sink, j, src, "comment-decorated");
            }
        }
    }
    // corpus-mutated
    let nm = ctx.budget(60_000, 1_000_000);
    for i in 0..nm {
        if !ctx.mine(i) || corp.is_empty() {
            continue;
        }
        let mut r = Rng::derive(ctx.seed, "c01-mut", i);
        let bi = r.below(corp_f.len());
        let (base, cheap) = corp_f[bi].clone();
        let m = mutate(&base, &corp, &mut r);
        // a mutant that still calls the recursive benchmark helpers stays parse/format only
        let heavy = !cheap || m.contains("fibonacci") || m.contains("is_prime") || m.contains("range(1") || m.contains("factorial");
        run(sink, j, &m, if heavy { "corpus-heavy" } else { "corpus-mutated" });
    }
    // raw random text over a punctuation-heavy alphabet
    let nr = ctx.budget(60_000, 1_000_000);
    for i in 0..nr {
        if !ctx.mine(i) {
            continue;
        }
        let mut r = Rng::derive(ctx.seed, "c01-raw", i);
        let t = random_text(&mut r);
        run(sink, j, &t, "random-text");
    }
}

fn part_json(ctx: &Ctx, sink: &mut Sink, j: &mut Journal) {
    let corp = corpus();
    let n = ctx.budget(30_000, 400_000);
    for i in 0..n {
        if !ctx.mine(i) {
            continue;
        }
        let mut r = Rng::derive(ctx.seed, "c01-json", i);
        // a document: data, or a function object whose source comes from several origins
        let fsrc: Option<String> = match r.below(6) {
            0 => Some(r.pick(&["x => x + 1", "(a, b?) => [a, b]", "(...r) => r", "x => nope", "x => x.k.j", "(a?, b) => a", "x => [x][5][0]", "() => 1/0", "x => x!", "x => if x then 1 else 2",
                "(x) => do {\n  y = x * 2\n  return y + undefined_name\n}", "x => \"é\" + x", "x => x via (y => y + \"s\")", "sum", "map", "nope", "", "x =>", "=> 1", "1 + 1", "x => x => x"]).to_string()),
            1 => {
                let depth = 1 + r.below(4);
                let mut sc = gens::Scope::new();
                let body = {
                    let mut g = Gen::new(&mut r, GenCfg { ill_typed_permille: 100, odd_strings: true, ..GenCfg::default() });
                    sc.vars.push(("x".into(), gens::Ty::Num));
                    g.expr(gens::Ty::Any, depth, &mut sc)
                };
                Some(print_min(&lam1("x", body)))
            }
            2 if !corp.is_empty() => {
                let b = r.pick(&corp).clone();
                Some(mutate(&b, &corp, &mut r))
            }
            3 => Some(random_text(&mut r)),
            _ => None,
        };
        let doc = match &fsrc {
            Some(s) => {
                if r.chance(1, 3) {
                    json!({"wrap": [{"__blots_function": s}, 1], "other": {"__blots_function": 5}})
                } else {
                    json!({"__blots_function": s})
                }
            }
            None => rval_json(&gens::random_data(&mut r, 3, true)),
        };
        let text = doc.to_string();
        if !j.next(&text) {
            continue;
        }
        let case = json!({"origin": "json-input", "document": text});
        let mut nontrivial = false;
        // from_str -> from_json -> to_value -> (call it)
        let sess = Sess::new();
        let loaded = guard(|| {
            let jv: serde_json::Value = serde_json::from_str(&text).map_err(|e| e.to_string())?;
            let sv = SerializableValue::from_json(&jv);
            sv.to_value(&mut sess.heap.borrow_mut()).map_err(|e| e.to_string())
        });
        match loaded {
            Err(p) => {
                let mut c = case.clone();
                c["panic"] = json!(p);
                sink.viol(&format!("stage=json-input {}", norm_panic(&p)), "loading a JSON input panicked", c);
            }
            Ok(Err(_)) => {}
            Ok(Ok(v)) => {
                nontrivial = true;
                value_stages(sink, &sess, &v, &case);
                sess.bind("fin", v);
                let is_fn = fsrc.is_some();
                let calls: &[&str] = if is_fn {
                    &["fin(1)", "fin()", "fin(1, 2)", "fin(\"s\")", "fin([1, 2])", "fin({k: 1})", "fin(null)", "[1, 2] via fin", "[1] where fin", "3 into fin", "fin.wrap[0](1)", "map([1], fin)", "fin(-1)", "fin(true)"]
                } else {
                    &["fin", "fin.a", "[...fin]", "fin == fin", "to_string(fin)"]
                };
                for c in calls {
                    let o = sess.eval(c);
                    match &o {
                        Out::Ok(v2) => value_stages(sink, &sess, v2, &case),
                        Out::Err(e) => {
                            let mut cc = case.clone();
                            cc["call"] = json!(c);
                            check_span(sink, e, if is_fn { "origin=reloaded-function" } else { "origin=json-data" }, &cc);
                        }
                        Out::Panic(p) => {
                            let mut cc = case.clone();
                            cc["call"] = json!(c);
                            cc["panic"] = json!(p);
                            sink.viol(&format!("stage=call-reloaded {}", norm_panic(p)), "calling a value loaded from JSON panicked", cc);
                        }
                    }
                }
            }
        }
        sink.case(&format!("json|{}", text), nontrivial);
        if j.k % 25 == 0 && !text.contains("\\u0000") {
            sink.rec(json!({"t": "rec", "kind": "cli-json", "document": text, "is_function": fsrc.is_some()}));
        }
        if sink.want_sample() && nontrivial && fsrc.is_some() {
            sink.sample(case);
        }
    }
    // emitted function sources reloaded and called (round trip through the real emitter)
    let sess = Sess::new();
    for (k, def) in ["k = 3", "f1 = x => x + k", "f2 = (a, b?) => [a, b, k]", "f3 = x => x.zz.yy", "f4 = x => [x][9][0]", "f5 = s => s + \"é\" + nope"].iter().enumerate() {
        let o = sess.eval(def);
        if k == 0 {
            continue;
        }
        if let Out::Ok(v) = o {
            let heap = sess.heap.borrow();
            if let Ok(sv) = SerializableValue::from_value(&v, &heap) {
                let text = sv.to_json().to_string();
                drop(heap);
                if !j.next(&text) {
                    continue;
                }
                let s2 = Sess::new();
                let jv: serde_json::Value = serde_json::from_str(&text).unwrap();
                if let Ok(v2) = SerializableValue::from_json(&jv).to_value(&mut s2.heap.borrow_mut()) {
                    s2.bind("fin", v2);
                    for c in ["fin(1)", "fin(\"s\")", "fin(null)", "fin({zz: 1})"] {
                        if let Out::Err(e) = s2.eval(c) {
                            check_span(sink, &e, "origin=reloaded-function", &json!({"emitted": text, "call": c}));
                        }
                    }
                    sink.case(&format!("emitted|{}", text), true);
                }
            }
        }
    }
    let _ = Heap::new;
}

fn rval_json(v: &rt::RVal) -> serde_json::Value {
    use rt::RVal::*;
    match v {
        Num(b) => json!(f64::from_bits(*b)),
        Str(s) => json!(s),
        Bool(b) => json!(b),
        Null => serde_json::Value::Null,
        List(l) => serde_json::Value::Array(l.iter().map(rval_json).collect()),
        Rec(r) => serde_json::Value::Object(r.iter().map(|(k, v)| (k.clone(), rval_json(v))).collect()),
        _ => serde_json::Value::Null,
    }
}

/// Work done by a stage must not explode with nesting depth (a stage that needs 2^depth steps does
/// not "finish" for nesting <= 64). Deterministic: counts hook events (H4 formatter calls, H1
/// evaluator entries), never wall-clock time.
fn part_complexity(ctx: &Ctx, sink: &mut Sink) {
    if ctx.shard_i != 0 {
        return;
    }
    type Fam = (&'static str, fn(usize) -> String);
    let fams: Vec<Fam> = vec![
        ("lambda-chain", |d| format!("{}1", "x => ".repeat(d))),
        ("via-lambda-nest", |d| format!("{}x{}", "[1] via (x => ".repeat(d), ")".repeat(d))),
        ("where-lambda-nest", |d| format!("{}true{}", "[1] where (x => [x] .== ".repeat(d), ")".repeat(d))),
        ("cond-in-condition", |d| format!("{}true{}", "if (".repeat(d), ") then true else false".repeat(d))),
        ("cond-in-then", |d| format!("{}1{}", "if true then (".repeat(d), ") else 0".repeat(d))),
        ("else-if-chain", |d| format!("{}0", "if false then 1 else ".repeat(d))),
        ("nested-list", |d| format!("{}1{}", "[".repeat(d), "]".repeat(d))),
        ("nested-record", |d| format!("{}1{}", "{a: ".repeat(d), "}".repeat(d))),
        ("nested-call", |d| format!("{}1{}", "abs(".repeat(d), ")".repeat(d))),
        ("nested-parens-binary", |d| format!("{}1{}", "(2 * ".repeat(d), " + 3)".repeat(d))),
        ("binary-chain", |d| (0..d).map(|i| format!("{} + ", i)).collect::<String>() + "1"),
        ("power-chain", |d| (0..d).map(|_| "2 ^ ".to_string()).collect::<String>() + "1"),
        ("nested-do", |d| format!("{}1{}", "do {\n return ".repeat(d), "\n}".repeat(d))),
        ("lambda-do-nest", |d| format!("{}1{}", "x => do {\n return ".repeat(d), "\n}".repeat(d))),
        ("assignment-lambda-list", |d| format!("f = {}[1, 2, 3]{}", "x => [x, ".repeat(d), "]".repeat(d))),
        ("index-chain", |d| format!("a{}", "[0]".repeat(d))),
        ("call-chain", |d| format!("f{}", "(1)".repeat(d))),
        ("negation-chain", |d| format!("{}1", "-".repeat(d))),
    ];
    let depths = [6usize, 10, 14];
    for (name, f) in fams {
        for w in [Some(1usize), Some(30), None] {
            // formatter work
            let mut counts: Vec<u64> = Vec::new();
            for d in depths {
                let src = f(d);
                match parse_program_ast(&src, true) {
                    Ok(asts) if !asts.is_empty() => {
                        blots_core::verif_hooks::take_format_calls();
                        let _ = guard(|| format_expr(&asts[0], w));
                        counts.push(blots_core::verif_hooks::take_format_calls());
                    }
                    _ => counts.push(0),
                }
            }
            sink.case(&format!("complexity|format|{}|{:?}", name, w), counts[2] > 0);
            sink.count("complexity_measurements", 1);
            if counts[0] > 0 && counts[1] > 10 * counts[0] && counts[2] > 10 * counts[1] && counts[2] > 20_000 {
                sink.viol(
                    &format!("superlinear stage=format_expr shape={}", name),
                    "formatter work grows exponentially with nesting depth (x10+ per 4 levels): the stage does not finish for nesting <= 64",
                    json!({"shape": name, "example_depth_6": f(6), "width": w, "format_expr_impl_calls_at_depth_6_10_14": counts}),
                );
            } else if sink.want_sample() {
                sink.sample(json!({"part": "complexity", "shape": name, "width": w, "format_expr_impl_calls_at_depth_6_10_14": counts}));
            }
        }
        // evaluator work
        let mut counts: Vec<u64> = Vec::new();
        for d in depths {
            let src = f(d);
            let sess = Sess::new();
            let _ = sess.eval("a = [[[[[[[[[[[[[[[0]]]]]]]]]]]]]]]");
            let _ = sess.eval("f = x => f");
            blots_core::verif_hooks::reset_stack_stats();
            let _ = sess.eval(&src);
            counts.push(blots_core::verif_hooks::stack_stats().eval_entries);
        }
        sink.case(&format!("complexity|eval|{}", name), counts[2] > 0);
        if counts[0] > 0 && counts[1] > 10 * counts[0] && counts[2] > 10 * counts[1] && counts[2] > 20_000 {
            sink.viol(
                &format!("superlinear stage=evaluate shape={}", name),
                "evaluator work grows exponentially with nesting depth",
                json!({"shape": name, "example_depth_6": f(6), "evaluate_ast_entries_at_depth_6_10_14": counts}),
            );
        }
    }
}

pub fn run(ctx: &Ctx, sink: &mut Sink) {
    rt::set_render_errors(true);
    let journal = ctx.opt("journal").and_then(|p| std::fs::OpenOptions::new().create(true).append(true).open(p).ok());
    let mut j = Journal { f: journal, k: 0, start: ctx.opt_u64("start", 0) };
    let part = ctx.opt("part").unwrap_or("all").to_string();
    if part == "all" || part == "builtins" {
        part_builtins(ctx, sink, &mut j);
    }
    if part == "all" || part == "lambdacalls" {
        part_lambda_calls(ctx, sink, &mut j);
    }
    if part == "all" || part == "longlists" {
        part_long_lists(ctx, sink, &mut j);
    }
    if part == "all" || part == "operators" {
        part_operators(ctx, sink, &mut j);
    }
    if part == "all" || part == "sources" {
        part_sources(ctx, sink, &mut j);
    }
    if part == "all" || part == "json" {
        part_json(ctx, sink, &mut j);
    }
    if part == "replay" {
        // verdict on one text (e.g. a libFuzzer artefact) by the same monitors
        if let Some(path) = ctx.opt("file") {
            if let Ok(bytes) = std::fs::read(path) {
                if let Ok(src) = String::from_utf8(bytes) {
                    let mut nt = false;
                    if j.next(&src) {
                        pipeline(sink, &src, "fuzz-artifact", true, &mut nt);
                    }
                    sink.case(&format!("replay|{}", src), nt);
                    sink.sample_force(json!({"origin": "fuzz-artifact", "source": src}));
                }
            }
        }
    }
    if part == "all" || part == "complexity" {
        part_complexity(ctx, sink);
    }
    sink.count("journal_cases", j.k);
    rt::set_render_errors(false);
}
