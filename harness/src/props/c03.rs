//! C03 - bindings are immutable and scoped: a bound name never changes or leaks.
//!
//! Session monitor: statements are fed one at a time into one shared (Heap, Environment), as the REPL
//! does; after every statement the environment is compared with the model (name -> snapshot).

use crate::Ctx;
use crate::out::Sink;
use crate::hexpr::RESERVED;
use crate::rng::Rng;
use crate::rt::{Out, ROut, RVal, Sess, cell_fingerprint};
use blots_core::heap::HeapValue;
use blots_core::values::Value;
use blots_core::verif_hooks;
use serde_json::json;
use std::collections::BTreeMap;

#[derive(Clone)]
struct Tpl {
    src: String,
    /// outermost assignment target, if the statement is `x = ...` / `output x = ...`
    outer_target: Option<String>,
    /// every assignment target that is syntactically outside any do-block and lambda body
    top_targets: Vec<String>,
    /// names mentioned anywhere
    mentions: Vec<String>,
}

fn tpl(src: &str, outer: Option<&str>, tops: &[&str], mentions: &[&str]) -> Tpl {
    Tpl {
        src: src.to_string(),
        outer_target: outer.map(|s| s.to_string()),
        top_targets: tops.iter().map(|s| s.to_string()).collect(),
        mentions: mentions.iter().map(|s| s.to_string()).collect(),
    }
}

fn alphabet() -> Vec<Tpl> {
    vec![
        tpl("a = 1", Some("a"), &["a"], &["a"]),
        tpl("a = 10", Some("a"), &["a"], &["a"]),
        tpl("b = 2", Some("b"), &["b"], &["b"]),
        tpl("b = a", Some("b"), &["b"], &["a", "b"]),
        tpl("b = a + 1", Some("b"), &["b"], &["a", "b"]),
        tpl("c = [a, b]", Some("c"), &["c"], &["a", "b", "c"]),
        tpl("c = {k: a}", Some("c"), &["c"], &["a", "c"]),
        tpl("f = x => x + a", Some("f"), &["f"], &["a", "f"]),
        tpl("f = a => a * 2", Some("f"), &["f"], &["f"]),
        tpl("c = (a = 1) + 1", Some("c"), &["c", "a"], &["a", "c"]),
        tpl("c = [b = 2, 3]", Some("c"), &["c", "b"], &["b", "c"]),
        tpl("c = {k: (a = 5)}", Some("c"), &["c", "a"], &["a", "c"]),
        tpl("c = do {\n a = 100\n return a + 1\n}", Some("c"), &["c"], &["a", "c"]),
        tpl("c = do {\n t = (b = 7)\n return t\n}", Some("c"), &["c"], &["b", "c"]),
        tpl("a = do {\n a = 1\n return a\n}", Some("a"), &["a"], &["a"]),
        tpl("f = do {\n a = 50\n return x => x + a\n}", Some("f"), &["f"], &["a", "f"]),
        tpl("((a) => a + 1)(5)", None, &[], &["a"]),
        tpl("[1, 2] via (a => a + 1)", None, &[], &["a"]),
        tpl("[1, 2] where (b => b > 1)", None, &[], &["b"]),
        tpl("map([1], c => c)", None, &[], &["c"]),
        tpl("(x => (b = x))(9)", None, &[], &["b"]),
        tpl("f(3)", None, &[], &["f"]),
        tpl("b = f(2)", Some("b"), &["b"], &["b", "f"]),
        tpl("output a", None, &[], &["a"]),
        tpl("output b = 5", Some("b"), &["b"], &["b"]),
        tpl("c = nope", Some("c"), &["c"], &["c"]),
        tpl("c = 1 + \"s\"", Some("c"), &["c"], &["c"]),
        tpl("c = (a = 1) + nope", Some("c"), &["c", "a"], &["a", "c"]),
        tpl("inputs = 1", Some("inputs"), &["inputs"], &[]),
        tpl("sum = 1", Some("sum"), &["sum"], &[]),
        tpl("constants = 2", Some("constants"), &["constants"], &[]),
        tpl("a = = 1", None, &[], &[]),
        tpl("[a, b, c]", None, &[], &["a", "b", "c"]),
        tpl("do {\n inputs = 5\n return inputs\n}", None, &[], &[]),
        tpl("c = if false then (a = 1) else 2", Some("c"), &["c", "a"], &["a", "c"]),
        // assignments in every position of a do-block / lambda body (return position, nested in the
        // return expression, statement-less blocks, callbacks)
        tpl("c = do {\n return a = 9\n}", Some("c"), &["c"], &["a", "c"]),
        tpl("do {\n return b = 9\n}", None, &[], &["b"]),
        tpl("c = do {\n return 1 + (a = 2)\n}", Some("c"), &["c"], &["a", "c"]),
        tpl("do {\n t = 1\n return (b = t) + 1\n}", None, &[], &["b"]),
        tpl("(x => a = x)(5)", None, &[], &["a"]),
        tpl("[1] via (x => (a = x))", None, &[], &["a"]),
        tpl("reduce([1, 2], (acc, x) => (b = acc + x), 0)", None, &[], &["b"]),
        tpl("c = (() => do {\n return a = 4\n})()", Some("c"), &["c"], &["a", "c"]),
        tpl("f = () => (b = 1)", Some("f"), &["f"], &["b", "f"]),
        tpl("f()", None, &[], &["f"]),
        // functions that keep a do-block-local name and escape / are called elsewhere
        tpl("c = do {\n a = x => x * 2\n return [a]\n}", Some("c"), &["c"], &["a", "c"]),
        tpl("c[0](5)", None, &[], &["c"]),
        tpl("c = do {\n b = f\n return b(1)\n}", Some("c"), &["c"], &["b", "c", "f"]),
        // a nested assignment to the statement's own target; a do-block local that gives an outer function a new name
        tpl("a = (a = 1) + a", Some("a"), &["a", "a"], &["a"]),
        tpl("(() => (b = 1))()", None, &[], &["b"]),
        tpl("f = () => do {\n a = a + 1\n return a\n}", Some("f"), &["f"], &["a", "f"]),
        // an anonymous function held in a list, with a late-bound free name; a do-block local of that name bound to it
        tpl("c = [x => a]", Some("c"), &["c"], &["a", "c"]),
        tpl("b = do {\n a = c[0]\n return 1\n}", Some("b"), &["b"], &["a", "b", "c"]),
        // parameters named like the reserved top-level name `inputs` (required, optional, rest)
        tpl("((inputs) => inputs + 1)(5)", None, &[], &[]),
        tpl("((q, inputs?) => [q, inputs])(1)", None, &[], &[]),
        // a do-block that uses an outer function and then shadows its name (directly and through a closure made in the block)
        tpl("c = do {\n t = f(1)\n f = x => x * 1000 + 7\n return f(2)\n}", Some("c"), &["c"], &["c", "f"]),
        tpl("c = do {\n t = f(1)\n f = x => x * 1000 + 7\n return (y => f(y))(3)\n}", Some("c"), &["c"], &["c", "f"]),
        tpl("c = do {\n a = f\n return 1\n}", Some("c"), &["c"], &["a", "c", "f"]),
    ]
}

/// The same alphabet with every bound integer literal (`= 1`, `= 10`, `(b = 7)` ...) replaced by another kind of
/// value: immutability must not depend on what a name holds (null, false, zero, empty values).
const VARIANT_VALUES: [&str; 6] = ["null", "false", "0", "\"\"", "[]", "{}"];

fn variant_alphabet(v: usize) -> Vec<Tpl> {
    let lit = VARIANT_VALUES[v % VARIANT_VALUES.len()];
    alphabet()
        .into_iter()
        .map(|mut t| {
            let cs: Vec<char> = t.src.chars().collect();
            let mut out = String::new();
            let mut i = 0;
            while i < cs.len() {
                // "= <digits>" preceded by a space or '(' and not part of "==" / "=>" / "<=" / ">="
                if cs[i] == '=' && i + 2 < cs.len() && cs[i + 1] == ' ' && cs[i + 2].is_ascii_digit() && i > 0 && cs[i - 1] == ' ' {
                    let mut j = i + 2;
                    while j < cs.len() && cs[j].is_ascii_digit() {
                        j += 1;
                    }
                    out.push_str("= ");
                    out.push_str(lit);
                    i = j;
                    continue;
                }
                out.push(cs[i]);
                i += 1;
            }
            t.src = out;
            t
        })
        .collect()
}

const FORBIDDEN: [&str; 16] = ["if", "then", "else", "true", "false", "null", "and", "or", "not", "do", "return", "output", "constants", "sum", "map", "len"];

struct Monitor<'a> {
    sess: &'a Sess,
    model: BTreeMap<String, (Value, RVal)>,
    inputs_snapshot: RVal,
    heap_marks: Vec<Option<u64>>,
    steps: usize,
    heap_check_every: usize,
    /// results of calling each function-valued top-level name with fixed arguments, after the previous statement
    probes: BTreeMap<String, Vec<crate::rt::ROut>>,
    /// "ok" / "err" per statement run so far (a parse error is "err")
    statuses: Vec<&'static str>,
    /// top-level names that were bound when each function-valued name was bound
    bound_at_def: Vec<(Value, Vec<String>)>,
}

fn fp(h: &blots_core::heap::Heap, i: usize) -> Option<u64> {
    cell_fingerprint(h, i).map(|s| crate::out::fnv(&s))
}

fn env_map(sess: &Sess) -> BTreeMap<String, Value> {
    sess.env.iter().collect()
}

impl<'a> Monitor<'a> {
    fn new(sess: &'a Sess) -> Monitor<'a> {
        let inputs = sess.env.get("inputs").map(|v| sess.rval(&v)).unwrap_or(RVal::Null);
        Monitor { sess, model: BTreeMap::new(), inputs_snapshot: inputs, heap_marks: Vec::new(), steps: 0, heap_check_every: 1, probes: BTreeMap::new(), statuses: Vec::new(), bound_at_def: Vec::new() }
    }

    fn snapshot_heap(&mut self) {
        let n = self.sess.heap_len();
        let h = self.sess.heap.borrow();
        while self.heap_marks.len() < n {
            let i = self.heap_marks.len();
            self.heap_marks.push(fp(&h, i));
        }
    }

    /// run one statement and check I1-I6; returns violations as (sig, what)
    fn step(&mut self, t: &Tpl, history: &[String]) -> Vec<(String, String, serde_json::Value)> {
        let mut v = Vec::new();
        self.snapshot_heap();
        let before = env_map(self.sess);
        let outer_bound_before = t.outer_target.as_ref().map(|n| before.contains_key(n)).unwrap_or(false);
        // templates that first use the outer `f` and then shadow it: they must succeed whenever `f(1)` does
        let must_succeed = (t.src.starts_with("c = do {\n t = f(1)\n f = ") && !outer_bound_before && matches!(self.sess.eval("f(1)"), Out::Ok(_)))
            || t.src.starts_with("((inputs) =>")
            || t.src.starts_with("((q, inputs?) =>");
        verif_hooks::take_heap_muts();
        verif_hooks::set_recording(true);
        let res = self.sess.run(&t.src, false);
        verif_hooks::set_recording(false);
        let muts = verif_hooks::take_heap_muts();
        let overwrites = verif_hooks::take_env_overwrites();
        let out = match res {
            Ok(mut o) if o.len() == 1 => Some(o.remove(0).out),
            Ok(_) => None,
            Err(_) => None, // parse error: nothing ran
        };
        self.statuses.push(if matches!(out, Some(Out::Ok(_))) { "ok" } else { "err" });
        let after = env_map(self.sess);
        let case = |extra: serde_json::Value| json!({"history": history, "statement": t.src, "detail": extra});
        // H5: the top-level scope never has a binding replaced, not even for the duration of one statement
        let top = std::rc::Rc::as_ptr(&self.sess.env) as usize;
        for (scope, name) in overwrites.iter() {
            if *scope == top {
                v.push(("top-level-binding-overwritten".to_string(), "a statement replaced a binding of the top-level scope".to_string(), case(json!({"name": name}))));
            }
        }
        // I1 stability: every earlier name still bound to the identical value, and the value deep-equal to its snapshot
        for (name, (val, snap)) in self.model.iter() {
            match after.get(name) {
                None => v.push(("binding-vanished".to_string(), "a bound top-level name is no longer bound".to_string(), case(json!({"name": name})))),
                Some(now) => {
                    if now != val {
                        v.push(("binding-rebound".to_string(), "a bound top-level name is bound to a different value".to_string(), case(json!({"name": name, "was": snap.show(), "now": self.sess.rval(now).show()}))));
                    } else {
                        let r = self.sess.rval(now);
                        if !same_ignoring_fn_names(&r, snap) {
                            v.push(("binding-value-mutated".to_string(), "the value observed through a bound name changed".to_string(), case(json!({"name": name, "was": snap.show(), "now": r.show()}))));
                        }
                    }
                }
            }
        }
        // I2 no leak: new names only among the statement's syntactic top-level targets
        for name in after.keys() {
            if !before.contains_key(name) {
                if !t.top_targets.contains(name) {
                    v.push(("name-leaked".to_string(), "a name bound inside a do-block / call / failed statement is visible afterwards".to_string(), case(json!({"name": name}))));
                }
                // I3 forbidden names
                if FORBIDDEN.contains(&name.as_str()) || name == "inputs" {
                    v.push((format!("forbidden-name-bound name={}", name), "a keyword / built-in / inputs / constants name was bound at top level".to_string(), case(json!({"name": name}))));
                }
            }
        }
        // inputs keeps its initial value
        match after.get("inputs") {
            Some(i) => {
                if self.sess.rval(i) != self.inputs_snapshot {
                    v.push(("inputs-changed".to_string(), "`inputs` no longer holds its initial value".to_string(), case(json!({"now": self.sess.rval(i).show()}))));
                }
            }
            None => v.push(("inputs-vanished".to_string(), "`inputs` is no longer bound".to_string(), case(json!({})))),
        }
        // I4 rebinding: outermost target already bound => error and nothing changes
        if outer_bound_before {
            if matches!(out, Some(Out::Ok(_))) {
                v.push(("rebinding-accepted".to_string(), "a statement rebinding an already bound top-level name succeeded".to_string(), case(json!({"target": t.outer_target}))));
            }
            if after.len() != before.len() {
                v.push(("rebinding-changed-environment".to_string(), "a refused rebinding changed the environment".to_string(), case(json!({"target": t.outer_target}))));
            }
        }
        // a failed statement must not bind its outermost target
        if let (Some(Out::Err(_)) | Some(Out::Panic(_)) | None, Some(target)) = (&out, &t.outer_target) {
            // (a nested assignment to the same name that succeeded before the failure is a legitimate binding)
            let nested_same = t.top_targets.iter().filter(|n| *n == target).count() > 1;
            if !nested_same && !before.contains_key(target) && after.contains_key(target) {
                v.push(("failed-statement-bound-target".to_string(), "a failing statement bound its target".to_string(), case(json!({"target": target}))));
            }
        }
        // a successful `x = e` binds x to the statement's value
        if let (Some(Out::Ok(val)), Some(target)) = (&out, &t.outer_target) {
            match after.get(target) {
                Some(bound) if bound == val => {}
                other => v.push(("assignment-did-not-bind".to_string(), "a successful assignment did not bind its target to its value".to_string(), case(json!({"target": target, "bound": other.map(|x| self.sess.rval(x).show())})))),
            }
        }
        // M-heap: pre-existing cells unchanged (lambda names aside); H3: only lambda cells handed out mutably
        self.steps += 1;
        {
            let h = self.sess.heap.borrow();
            let full = self.steps % self.heap_check_every == 0;
            for (i, mark) in self.heap_marks.iter().enumerate() {
                if !full {
                    break;
                }
                if fp(&h, i) != *mark {
                    v.push(("heap-cell-mutated".to_string(), "a heap cell that existed before the statement changed".to_string(), case(json!({"cell": i}))));
                    break;
                }
            }
            for m in muts {
                if !matches!(h.get(m), Some(HeapValue::Lambda(_))) {
                    v.push(("heap-get-mut-on-data".to_string(), "a non-function heap cell was handed out mutably".to_string(), case(json!({"cell": m}))));
                }
            }
        }
        // update the model with the new names; I5 read through the name
        for (name, val) in after.iter() {
            if !self.model.contains_key(name) && name != "inputs" {
                self.model.insert(name.clone(), (*val, self.sess.rval(val)));
            }
        }
        for (name, (_, snap)) in self.model.iter() {
            if FORBIDDEN.contains(&name.as_str()) {
                continue;
            }
            let through = self.sess.eval(name);
            match through {
                Out::Ok(x) => {
                    let r = self.sess.rval(&x);
                    if !same_ignoring_fn_names(&r, snap) {
                        v.push(("lookup-differs-from-binding".to_string(), "the value read through a name differs from what was bound".to_string(), case(json!({"name": name, "bound": snap.show(), "read": r.show()}))));
                    }
                }
                other => v.push(("lookup-fails".to_string(), "a bound name cannot be read".to_string(), case(json!({"name": name, "out": other.msg()})))),
            }
        }
        // I7 behaviour through the name: calling a bound function with fixed arguments gives the same result after
        // every later statement, unless that statement bound a new top-level name the function's body mentions
        // (a free name not bound at definition is looked up at the call)
        {
            let new_names: Vec<&String> = after.keys().filter(|k| !before.contains_key(*k)).collect();
            let mut now: BTreeMap<String, Vec<crate::rt::ROut>> = BTreeMap::new();
            // functions held in a list count too (their first element is probed as NAME[0](3))
            let held: Vec<(String, Value, RVal, String)> = self
                .model
                .iter()
                .filter_map(|(name, (v, snap))| match snap {
                    RVal::Fn { .. } => Some((name.clone(), *v, snap.clone(), name.clone())),
                    RVal::List(items) => match items.first() {
                        Some(f @ RVal::Fn { .. }) => Some((name.clone(), *v, f.clone(), format!("{}[0]", name))),
                        _ => None,
                    },
                    _ => None,
                })
                .collect();
            for (name, fval, snap, callee) in held.iter() {
                let (name, fval, snap) = (name, fval, snap);
                if let RVal::Fn { body, .. } = snap {
                    if FORBIDDEN.contains(&name.as_str()) {
                        continue;
                    }
                    let results: Vec<crate::rt::ROut> = [format!("{}(3)", callee), format!("{}()", callee)].iter().map(|src| self.sess.rout(&self.sess.eval(src))).collect();
                    if let Some(prev) = self.probes.get(name) {
                        let words: Vec<&str> = body.split(|c: char| !(c.is_alphanumeric() || c == '_')).collect();
                        let excused = new_names.iter().any(|n| words.contains(&n.as_str()));
                        // (error messages are not compared: they may mention the name a function was last given)
                        let same = prev.len() == results.len() && prev.iter().zip(results.iter()).all(|(p, q)| p.agrees(q));
                        if !same && !excused {
                            v.push(("function-behaviour-changed".to_string(), "a bound function returns something else for the same arguments after a later statement that bound none of its free names".to_string(), case(json!({"name": name, "function": snap.show(), "calls": [format!("{}(3)", callee), format!("{}()", callee)], "before": prev.iter().map(|r| r.show()).collect::<Vec<_>>(), "after": results.iter().map(|r| r.show()).collect::<Vec<_>>()}))));
                        }
                    }
                    // I8 do-block locals and parameters of a caller are not visible inside the function: called from a block
                    // (and from a function) whose locals (parameters) shadow every name of the small name set, it does what
                    // it does at top level - provided each of those names its body mentions was bound when it was defined
                    // (a free name not bound at definition is looked up at the call, by design)
                    // (keyed by the function value, not the name: an alias bound later is the same, older function)
                    let known: Vec<String> = match self.bound_at_def.iter().find(|(f, _)| f == fval) {
                        Some((_, k)) => k.clone(),
                        None => {
                            let k: Vec<String> = before.keys().cloned().collect();
                            self.bound_at_def.push((*fval, k.clone()));
                            k
                        }
                    };
                    let words: Vec<&str> = body.split(|c: char| !(c.is_alphanumeric() || c == '_')).collect();
                    let small = ["a", "b", "c", "t"];
                    // (only for functions bound to a name directly: for a function held in a list the list's creation time
                    // says nothing about when the function was defined)
                    if callee == name && small.iter().filter(|n| words.contains(*n)).all(|n| known.iter().any(|k| k == n)) {
                        for (call, top) in [format!("{}(3)", callee), format!("{}()", callee)].iter().zip(results.iter()) {
                            let shadowers: Vec<&str> = small.iter().copied().filter(|n| *n != name.as_str()).collect();
                            let in_block = format!("do {{\n{}\n return {}\n}}", shadowers.iter().map(|n| format!(" {} = 12345", n)).collect::<Vec<_>>().join("\n"), call);
                            let in_call = format!("(({}) => {})({})", shadowers.join(", "), call, shadowers.iter().map(|_| "12345").collect::<Vec<_>>().join(", "));
                            for (how, src) in [("do-block locals", in_block), ("parameters", in_call)] {
                                let got = self.sess.rout(&self.sess.eval(&src));
                                if !got.agrees(top) {
                                    v.push(("caller-locals-visible-in-callee".to_string(), "a function called from a scope whose locals / parameters shadow outer names does something else than at top level".to_string(), case(json!({"name": name, "function": snap.show(), "shadowed_by": how, "call_site": src, "result": got.show(), "at_top_level": top.show()}))));
                                }
                            }
                        }
                    }
                    now.insert(name.clone(), results);
                }
            }
            self.probes = now;
        }
        if must_succeed && !matches!(out, Some(Out::Ok(_))) {
            v.push(("shadowing-inner-value".to_string(), "a do-block that uses an outer function and then binds a local of the same name fails although every step is valid".to_string(), case(json!({"got": out.as_ref().map(|o| o.msg())}))));
        }
        // I6 predicted inner values for the simple shadowing templates
        if let Some(Out::Ok(val)) = &out {
            let r = self.sess.rval(val);
            let expect = match t.src.as_str() {
                "c = do {\n a = 100\n return a + 1\n}" => Some(RVal::num(101.0)),
                "((a) => a + 1)(5)" => Some(RVal::num(6.0)),
                "[1, 2] via (a => a + 1)" => Some(RVal::List(vec![RVal::num(2.0), RVal::num(3.0)])),
                "[1, 2] where (b => b > 1)" => Some(RVal::List(vec![RVal::num(2.0)])),
                "map([1], c => c)" => Some(RVal::List(vec![RVal::num(1.0)])),
                "a = do {\n a = 1\n return a\n}" => Some(RVal::num(1.0)),
                "(x => (b = x))(9)" => Some(RVal::num(9.0)),
                "do {\n inputs = 5\n return inputs\n}" => Some(RVal::num(5.0)),
                "((inputs) => inputs + 1)(5)" => Some(RVal::num(6.0)),
                "((q, inputs?) => [q, inputs])(1)" => Some(RVal::List(vec![RVal::num(1.0), RVal::Null])),
                "c = do {\n t = f(1)\n f = x => x * 1000 + 7\n return f(2)\n}" => Some(RVal::num(2007.0)),
                "c = do {\n t = f(1)\n f = x => x * 1000 + 7\n return (y => f(y))(3)\n}" => Some(RVal::num(3007.0)),
                _ => None,
            };
            if let Some(e) = expect {
                if r != e {
                    v.push(("shadowing-inner-value".to_string(), "a shadowing local / parameter does not have its own value inside its scope".to_string(), case(json!({"got": r.show(), "expected": e.show()}))));
                }
            }
        }
        v
    }
}

fn same_ignoring_fn_names(a: &RVal, b: &RVal) -> bool {
    a == b
}

fn is_data(v: &RVal) -> bool {
    match v {
        RVal::Num(b) => f64::from_bits(*b).is_finite(),
        RVal::Str(_) | RVal::Bool(_) | RVal::Null => true,
        RVal::List(l) => l.iter().all(is_data),
        RVal::Rec(r) => r.iter().all(|(_, x)| is_data(x)),
        _ => false,
    }
}

fn run_sequence(sink: &mut Sink, seq: &[&Tpl], key: &str) {
    run_sequence_rec(sink, seq, key, false)
}

/// `for_repl`: also record the session (statements, ok/err per statement, data-valued bindings at the end) so that the
/// Python leg can replay it through the real interactive REPL of the CLI under a pseudo-terminal.
fn run_sequence_rec(sink: &mut Sink, seq: &[&Tpl], key: &str, for_repl: bool) {
    let sess = Sess::new();
    let mut mon = Monitor::new(&sess);
    mon.heap_check_every = if seq.len() > 10 { 7 } else { 1 };
    let mut history: Vec<String> = Vec::new();
    let mut nontrivial = false;
    let mut bound_names: Vec<String> = Vec::new();
    for t in seq {
        if t.mentions.iter().any(|m| bound_names.contains(m)) {
            nontrivial = true;
        }
        let viols = mon.step(t, &history);
        for (sig, what, case) in viols {
            sink.viol(&sig, &what, case);
        }
        history.push(t.src.clone());
        bound_names = mon.model.keys().cloned().collect();
    }
    sink.case(key, nontrivial);
    if for_repl {
        let bound: Vec<serde_json::Value> = mon
            .model
            .iter()
            .map(|(k, (_, snap))| json!({"name": k, "data": is_data(snap), "value": if is_data(snap) { snap.to_json() } else { serde_json::Value::Null }}))
            .collect();
        sink.rec(json!({"t": "rec", "k": "repl-session", "key": key, "stmts": history, "status": mon.statuses, "bound": bound}));
    }
    if sink.want_sample() && nontrivial && seq.len() >= 3 {
        sink.sample(json!({"session": history, "bound_at_end": mon.model.iter().map(|(k, (_, s))| format!("{} = {}", k, s.show())).collect::<Vec<_>>()}));
    }
}

fn random_template(r: &mut Rng, names: &[&str]) -> Tpl {
    let x = *r.pick(names);
    let y = *r.pick(names);
    let z = *r.pick(names);
    let k = r.below(1000);
    match r.below(22) {
        0 => {
            let val = *r.pick(&["null", "false", "0", "\"\"", "[]", "{}", "-0", "true", "inputs.missing"]);
            tpl(&format!("{} = {}", x, val), Some(x), &[x], &[x])
        }
        1 | 2 => tpl(&format!("{} = {}", x, k), Some(x), &[x], &[x]),
        3 => tpl(&format!("{} = {}", x, y), Some(x), &[x], &[x, y]),
        4 => tpl(&format!("{} = [{}, {}, \"s{}\"]", x, y, z, k), Some(x), &[x], &[x, y, z]),
        5 => tpl(&format!("{} = {{k: {}, j: [{}]}}", x, y, z), Some(x), &[x], &[x, y, z]),
        6 => tpl(&format!("{} = p => p + {}", x, y), Some(x), &[x], &[x, y]),
        7 => tpl(&format!("{} = {} => {} * 2", x, y, y), Some(x), &[x], &[x]),
        8 => tpl(&format!("{} = ({} = {}) + 1", x, y, k), Some(x), &[x, y], &[x, y]),
        9 => tpl(&format!("{} = do {{\n {} = {}\n return {} + 1\n}}", x, y, k, y), Some(x), &[x], &[x, y]),
        10 => tpl(&format!("{} = do {{\n t = ({} = {})\n return t\n}}", x, y, k), Some(x), &[x], &[x, y]),
        11 => tpl(&format!("(({}) => {} + 1)({})", x, x, k), None, &[], &[x]),
        12 => tpl(&format!("[1, 2, 3] via ({} => {} + {})", x, x, k), None, &[], &[x]),
        13 => tpl(&format!("(q => ({} = q))({})", x, k), None, &[], &[x]),
        14 => tpl(&format!("{}({})", x, k), None, &[], &[x]),
        15 => tpl(&format!("{} = {}({})", x, y, k), Some(x), &[x], &[x, y]),
        16 => tpl(&format!("output {}", x), None, &[], &[x]),
        17 => tpl(&format!("output {} = {}", x, k), Some(x), &[x], &[x]),
        18 => tpl(&format!("{} = nope_{}", x, k), Some(x), &[x], &[x]),
        19 => tpl(&format!("{} = ({} = {}) + nope", x, y, k), Some(x), &[x, y], &[x, y]),
        20 => match r.below(9) {
            6 => tpl(&format!("{}[0]({})", x, k), None, &[], &[x]),
            7 => tpl(&format!("{} = do {{\n {} = {}\n return {}({})\n}}", x, y, z, y, k), Some(x), &[x], &[x, y, z]),
            0 => tpl(&format!("{} = do {{\n return {} = {}\n}}", x, y, k), Some(x), &[x], &[x, y]),
            1 => tpl(&format!("do {{\n return {} = {}\n}}", x, k), None, &[], &[x]),
            2 => tpl(&format!("do {{\n return 1 + ({} = {})\n}}", x, k), None, &[], &[x]),
            3 => tpl(&format!("(q => {} = q)({})", x, k), None, &[], &[x]),
            4 => tpl(&format!("[{}] where (q => ({} = q) > 0)", k, x), None, &[], &[x]),
            5 => tpl(&format!("{} = do {{\n {} = q => q * 2\n return [{}]\n}}", x, y, y), Some(x), &[x], &[x, y]),
            _ => tpl(&format!("{} = sort(reverse([{}, {}, 3]))", x, k, k + 1), Some(x), &[x], &[x]),
        },
        _ => tpl(&format!("[{}, {}, {}]", x, y, z), None, &[], &[x, y, z]),
    }
}

pub fn run(ctx: &Ctx, sink: &mut Sink) {
    let alpha = alphabet();
    let n = alpha.len();
    sink.count("alphabet_size", n as u64);
    // ---- exhaustive sequences up to length 4 (quick) / 5 (thorough), sharded
    // (length 5 is exhaustive over the first CORE templates - the alphabet as it stood when the thorough tier was sized; the
    // templates added since take part in every sequence up to length 4, in the sampled longer sequences and in the sessions)
    const CORE: usize = 40;
    let max_len = if ctx.quick { 4 } else { 5 };
    let mut idx = 0u64;
    for len in 1..=max_len {
        let base = if len >= 5 { CORE.min(n) } else { n };
        let total = (base as u64).pow(len as u32);
        for code in 0..total {
            idx += 1;
            if !ctx.mine(idx) {
                continue;
            }
            let mut c = code;
            let mut seq: Vec<&Tpl> = Vec::with_capacity(len);
            for _ in 0..len {
                seq.push(&alpha[(c % base as u64) as usize]);
                c /= base as u64;
            }
            // a deterministic sample of the sequences is also replayed through the real REPL (Python leg)
            let for_repl = len >= 2 && code % (if len <= 2 { 13 } else if len == 3 { 331 } else if len == 4 { 16001 } else { 800011 }) == (ctx.seed % 11);
            run_sequence_rec(sink, &seq, &format!("seq|{}|{}", len, code), for_repl);
        }
    }
    // ---- the same, exhaustively up to length 3, for each value variant of the alphabet
    for v in 0..VARIANT_VALUES.len() {
        let va = variant_alphabet(v);
        for len in 1..=3usize {
            let total = (n as u64).pow(len as u32);
            for code in 0..total {
                idx += 1;
                if !ctx.mine(idx) {
                    continue;
                }
                let mut c = code;
                let mut seq: Vec<&Tpl> = Vec::with_capacity(len);
                for _ in 0..len {
                    seq.push(&va[(c % n as u64) as usize]);
                    c /= n as u64;
                }
                run_sequence(sink, &seq, &format!("vseq|{}|{}|{}", v, len, code));
            }
        }
    }
    sink.count("value_variants_of_alphabet", VARIANT_VALUES.len() as u64);
    // longer exhaustive level is sampled: length max_len+1
    let extra = ctx.budget(60_000, 6_000_000);
    let total = (n as u64).pow((max_len + 1) as u32);
    for j in 0..extra {
        if !ctx.mine(j) {
            continue;
        }
        let mut r = Rng::derive(ctx.seed, "c03-long", j);
        let code = r.next() % total;
        let mut c = code;
        let mut seq: Vec<&Tpl> = Vec::new();
        for _ in 0..=max_len {
            seq.push(&alpha[(c % n as u64) as usize]);
            c /= n as u64;
        }
        run_sequence(sink, &seq, &format!("seq|{}|{}", max_len + 1, code));
    }
    sink.count("exhaustive_sequence_length", max_len as u64);
    // ---- every built-in function name, every reserved word, `inputs` and `constants`: never bound at top level, in any form
    if ctx.shard_i == 0 {
        let mut names: Vec<String> = blots_core::functions::BuiltInFunction::all().iter().map(|b| b.name().to_string()).collect();
        names.extend(RESERVED.iter().map(|s| s.to_string()));
        names.push("inputs".to_string());
        names.push("constants".to_string());
        for name in names.iter() {
            for form in ["{} = 5", "output {} = 5", "{} = x => x", "zz_other = ({} = 5)", "{} = null"] {
                let sess = Sess::new();
                let before: Vec<String> = env_map(&sess).keys().cloned().collect();
                let src = form.replace("{}", name);
                let out = sess.eval(&src);
                let after = env_map(&sess);
                sink.case(&format!("forbidden|{}", src), true);
                let bound = after.keys().any(|k| k == name && !before.contains(k));
                if out.is_ok() || bound {
                    sink.viol(&format!("forbidden-name-bound name={}", name), "a keyword / built-in / inputs / constants name was bound at top level", json!({"statement": src, "succeeded": out.is_ok(), "bound_afterwards": bound}));
                }
            }
        }
        sink.count("forbidden_names_tried", names.len() as u64);
    }
    // ---- an assignment in every expression position a top-level statement has (outside do-blocks and function bodies),
    // with a target that is already bound (data / function), fresh, or reserved; each statement is run twice
    if ctx.shard_i == 0 {
        const CONTEXTS: [&str; 36] = [
            "if true then @ else 0", "if false then 0 else @", "if true then (@) else 0", "c = if true then @ else 0", "c = if false then 0 else @", "if (@) == 2 then 1 else 0",
            "if true then if true then @ else 0 else 0", "if false then 0 else if false then 0 else @", "(if true then @ else 0) + 1", "[if true then @ else 0]", "c = [if false then 0 else @]",
            "[@]", "[1, @, 3]", "{k: @}", "{k: (@)}", "abs(@)", "max(1, @)", "(@) + 1", "1 + (@)", "-(@)", "(@) and true", "false or (@)", "null ?? (@)", "[(@)][0]", "[...[@]]", "{...{k: @}}",
            "(@) into (q => q)", "(q => q)(@)", "output c = (@)", "output c = if true then @ else 0", "c = d = @", "((@))", "format(\"{}\", @)", "c = (@)", "{k: if true then @ else 0}.k", "typeof(if true then @ else 0)",
        ];
        const TARGETS: [&str; 8] = ["a", "b", "z", "inputs", "constants", "sum", "true", "return"];
        const VALUES: [&str; 3] = ["2", "x => x", "null"];
        let mut n_ctx = 0u64;
        for cx in CONTEXTS.iter() {
            for tg in TARGETS.iter() {
                for val in VALUES.iter() {
                    let stmt = cx.replace('@', &format!("{} = {}", tg, val));
                    let mut tops: Vec<&str> = vec![tg];
                    let outer = if stmt.starts_with("c = ") || stmt.starts_with("output c = ") { Some("c") } else { None };
                    if outer.is_some() {
                        tops.push("c");
                    }
                    if stmt.contains("d = ") {
                        tops.push("d");
                    }
                    let seq_owned = vec![
                        tpl("a = 1", Some("a"), &["a"], &["a"]),
                        tpl("b = x => x + a", Some("b"), &["b"], &["a", "b"]),
                        tpl(&stmt, outer, &tops, &[tg, "c", "d"]),
                        tpl(&stmt, outer, &tops, &[tg, "c", "d"]),
                        tpl("[a, b(1)]", None, &[], &["a", "b"]),
                    ];
                    let refs: Vec<&Tpl> = seq_owned.iter().collect();
                    run_sequence(sink, &refs, &format!("ctx|{}", stmt));
                    n_ctx += 1;
                }
            }
        }
        sink.count("assignment_position_sequences", n_ctx);
    }
    // ---- the predefined names (`inf`, `infinity`, `constants`): whatever a statement that uses them as a binding target does
    // (refused, or accepted without effect), the value observed through them - directly and from inside a function defined
    // earlier - is the same after the statement as before it, and a do-block / parameter of that name is not seen by a
    // function called from there
    if ctx.shard_i == 0 {
        let probes = ["inf", "infinity", "-inf", "inf > 10", "constants.pi", "constants", "pre()", "[1] via (q => pre())"];
        let stmts = [
            "inf = 5", "infinity = 1", "x1 = (inf = 2)", "x2 = [infinity = 3]", "output inf = 4", "x3 = do {\n inf = 3\n return 1\n}", "x4 = do {\n infinity = 0\n return pre()\n}",
            "x5 = do {\n constants = {pi: 3, e: 2}\n return pre()\n}", "x6 = (constants => pre())({pi: 1, e: 1})", "x7 = (inf => pre())(7)", "x8 = [1] via (infinity => pre())",
            "x9 = do {\n inf = 1\n infinity = 2\n constants = {pi: 0, e: 0}\n return [1, 2] via (q => pre())\n}", "inf = x => x", "constants = 2", "infinity = infinity",
        ];
        let mut n_pre = 0u64;
        for first in 0..stmts.len() {
            let sess = Sess::new();
            let _ = sess.eval("pre = () => [inf, infinity, constants.pi, constants.e]");
            let reference: Vec<ROut> = probes.iter().map(|p| sess.rout(&sess.eval(p))).collect();
            let pre_top = sess.rout(&sess.eval("pre()"));
            let mut history: Vec<String> = vec!["pre = () => [inf, infinity, constants.pi, constants.e]".to_string()];
            for k in 0..stmts.len() {
                let st = stmts[(first + k) % stmts.len()];
                let out = sess.rout(&sess.eval(st));
                history.push(st.to_string());
                n_pre += 1;
                sink.case(&format!("predefined|{}|{}", first, k), true);
                for (p, was) in probes.iter().zip(reference.iter()) {
                    let now = sess.rout(&sess.eval(p));
                    if !was.agrees(&now) {
                        sink.viol(&format!("predefined-name-value-changed probe={}", p), "a statement changed the value observed through a predefined name", json!({"history": history, "probe": p, "before": was.show(), "after": now.show()}));
                    }
                }
                // statements x4.. return what pre() gave when called from inside a block / call that shadows the names
                if st.starts_with("x4") || st.starts_with("x5") || st.starts_with("x6") || st.starts_with("x7") {
                    if let (ROut::Ok(got), ROut::Ok(top)) = (&out, &pre_top) {
                        if got != top {
                            sink.viol("caller-locals-visible-in-callee predefined-name", "a do-block local / parameter named like a predefined name is seen by a function called from there", json!({"history": history, "statement": st, "got": out.show(), "at_top_level": pre_top.show()}));
                        }
                    }
                }
            }
        }
        sink.count("predefined_name_statements", n_pre);
    }
    // ---- random longer sessions on 6 names
    let sessions = ctx.budget(1500, 30_000);
    let names = ["a", "b", "c", "d", "f", "g"];
    for s in 0..sessions {
        if !ctx.mine(s) {
            continue;
        }
        let mut r = Rng::derive(ctx.seed, "c03-session", s);
        let len = 20 + r.below(181);
        let tpls: Vec<Tpl> = (0..len).map(|_| random_template(&mut r, &names)).collect();
        let refs: Vec<&Tpl> = tpls.iter().collect();
        run_sequence_rec(sink, &refs, &format!("session|{}", s), s % 25 == 3);
    }
}
