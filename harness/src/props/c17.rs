//! C17 - unit conversion is consistent across the whole unit table (read from the build under test).

use crate::Ctx;
use crate::out::Sink;
use crate::rt::{mk_value, RVal, ROut, Sess};
use std::cell::{Cell, RefCell};
use blots_core::units::{self, Unit};
use blots_core::values::Value;
use serde_json::json;

fn uname(u: &Unit) -> String {
    format!("{}[{}]", u.identifiers.first().copied().unwrap_or("?"), u.category.name())
}

fn ulp_of(m: f64) -> f64 {
    if m == 0.0 || !m.is_finite() {
        return f64::MIN_POSITIVE;
    }
    let b = m.abs().to_bits();
    f64::from_bits(b + 1) - m.abs()
}

fn close(a: f64, b: f64, mag: f64, ulps: f64) -> bool {
    if a.to_bits() == b.to_bits() {
        return true;
    }
    if a.is_nan() || b.is_nan() {
        return a.is_nan() && b.is_nan();
    }
    if a.is_infinite() || b.is_infinite() {
        return a == b;
    }
    (a - b).abs() <= ulps * ulp_of(mag)
}

const MAGS: [f64; 13] = [0.0, 1e-12, -1e-12, 1e-6, -1e-6, 1.0, -1.0, 37.5, -37.5, 1e6, -1e6, 1e12, -1e12];

const SI: [(&str, i32); 20] = [
    ("yocto", -24), ("zepto", -21), ("atto", -18), ("femto", -15), ("pico", -12), ("nano", -9), ("micro", -6), ("milli", -3), ("centi", -2),
    ("deci", -1), ("deca", 1), ("deka", 1), ("hecto", 2), ("kilo", 3), ("mega", 6), ("giga", 9), ("tera", 12), ("peta", 15), ("exa", 18), ("zetta", 21),
];
const SI2: [(&str, i32); 1] = [("yotta", 24)];
const BIN: [(&str, i32); 8] = [("kibi", 10), ("mebi", 20), ("gibi", 30), ("tebi", 40), ("pebi", 50), ("exbi", 60), ("zebi", 70), ("yobi", 80)];

/// Every conversion the monitors look at goes through both entry points the property names: the
/// unit-table function `units::convert` and the language-level `convert` built-in (evaluated with the
/// value and both unit strings bound as variables, so no literal syntax is involved). The two must
/// agree bit for bit on success and both fail on failure; the monitors then judge the common answer.
struct Conv {
    sess: RefCell<Sess>,
    calls: Cell<u64>,
    reported: Cell<u64>,
}

impl Conv {
    fn new() -> Conv {
        Conv { sess: RefCell::new(Sess::new()), calls: Cell::new(0), reported: Cell::new(0) }
    }
    fn builtin(&self, x: f64, from: &str, to: &str) -> ROut {
        let n = self.calls.get() + 1;
        self.calls.set(n);
        if n % 4000 == 0 {
            *self.sess.borrow_mut() = Sess::new(); // the arena never shrinks
        }
        let sess = self.sess.borrow();
        sess.bind("vx", Value::Number(x));
        sess.bind("ua", mk_value(&sess.heap, &RVal::Str(from.to_string())));
        sess.bind("ub", mk_value(&sess.heap, &RVal::Str(to.to_string())));
        sess.rout(&sess.eval("convert(vx, ua, ub)"))
    }
    fn convert(&self, sink: &mut Sink, x: f64, from: &str, to: &str) -> Result<f64, String> {
        let lib = units::convert(x, from, to).map_err(|e| e.to_string());
        let got = self.builtin(x, from, to);
        let agree = match (&lib, &got) {
            (Ok(v), ROut::Ok(r)) => *r == RVal::num(*v) || (v.is_nan() && matches!(r, RVal::Num(b) if f64::from_bits(*b).is_nan())),
            (Err(_), ROut::Err(_)) => true,
            _ => false,
        };
        if !agree && self.reported.get() < 40 {
            self.reported.set(self.reported.get() + 1);
            sink.viol(
                &format!("builtin-differs {}->{}", from, to),
                "the convert built-in and the unit table's conversion disagree",
                json!({"value": x, "from": from, "to": to, "unit_table": match &lib { Ok(v) => json!(v), Err(e) => json!({"error": e}) }, "builtin": got.show()}),
            );
        }
        lib
    }
    /// resolution as the built-in sees it: `convert(1, id, id)` succeeds iff `id` resolves
    fn builtin_resolves(&self, id: &str) -> ROut {
        self.builtin(1.0, id, id)
    }
}

/// the harness's reading of "resolves exactly, or case-insensitively when unambiguous"
fn model_resolve(all: &[Unit], s: &str) -> Result<usize, &'static str> {
    let exact: Vec<usize> = (0..all.len()).filter(|i| all[*i].identifiers.contains(&s)).collect();
    if exact.len() == 1 {
        return Ok(exact[0]);
    }
    if exact.len() > 1 {
        return Err("ambiguous");
    }
    let low = s.to_lowercase();
    let ci: Vec<usize> = (0..all.len()).filter(|i| all[*i].identifiers.iter().any(|a| a.to_lowercase() == low)).collect();
    match ci.len() {
        0 => Err("unknown"),
        1 => Ok(ci[0]),
        _ => Err("ambiguous"),
    }
}

fn same_unit(a: &Unit, b: &Unit) -> bool {
    a.category == b.category && a.identifiers == b.identifiers
}

pub fn run(ctx: &Ctx, sink: &mut Sink) {
    let all = units::get_all_units();
    sink.count("units_in_table", all.len() as u64);
    let n_ids: usize = all.iter().map(|u| u.identifiers.len()).sum();
    sink.count("identifiers_in_table", n_ids as u64);
    let mut idx = 0u64;
    let cv = Conv::new();

    // ---- (1) every identifier of every unit resolves to that unit; case variants per the rule
    for (ui, u) in all.iter().enumerate() {
        for id in u.identifiers.iter() {
            idx += 1;
            if !ctx.mine(idx) {
                continue;
            }
            sink.case(&format!("resolve|{}|{}", ui, id), true);
            let listed_in: Vec<usize> = (0..all.len()).filter(|i| all[*i].identifiers.contains(id)).collect();
            match units::resolve_unit(id) {
                Ok(r) if same_unit(&r, u) => {}
                Ok(r) => sink.viol(&format!("unit-id=\"{}\"", id), "an identifier listed for a unit resolves to a different unit", json!({"identifier": id, "listed_for": uname(u), "resolved_to": uname(&r)})),
                Err(e) => sink.viol(
                    &format!("unit-id=\"{}\"", id),
                    "an identifier listed for a unit does not resolve to it",
                    json!({"identifier": id, "listed_for": uname(u), "also_listed_for": listed_in.iter().filter(|i| **i != ui).map(|i| uname(&all[*i])).collect::<Vec<_>>(), "error": e.to_string()}),
                ),
            }
            if !matches!(cv.builtin_resolves(id), ROut::Ok(_)) && units::resolve_unit(id).is_ok() {
                sink.viol(&format!("builtin-resolution unit-id=\"{}\"", id), "the convert built-in rejects an identifier the unit table resolves", json!({"identifier": id}));
            }
            // case variants
            for variant in [id.to_uppercase(), id.to_lowercase(), capitalise(id), swapcase(id)] {
                if variant == *id {
                    continue;
                }
                let exp = model_resolve(&all, &variant);
                let got = units::resolve_unit(&variant);
                sink.case(&format!("resolve-ci|{}", variant), true);
                if matches!(cv.builtin_resolves(&variant), ROut::Ok(_)) != exp.is_ok() {
                    sink.viol(
                        &format!("builtin-resolution case-variant of unit-id=\"{}\"", id),
                        "the convert built-in's resolution of a spelling does not follow 'unique match or error'",
                        json!({"spelling": variant, "expected_resolves": exp.is_ok(), "builtin": cv.builtin_resolves(&variant).show()}),
                    );
                }
                let ok = match (&exp, &got) {
                    (Ok(i), Ok(r)) => same_unit(&all[*i], r),
                    (Err(_), Err(_)) => true,
                    _ => false,
                };
                if !ok {
                    sink.viol(
                        &format!("case-variant of unit-id=\"{}\"", id),
                        "case-insensitive resolution does not follow 'unique match or error'",
                        json!({"spelling": variant, "expected": match exp { Ok(i) => uname(&all[i]), Err(e) => e.to_string() }, "got": match &got { Ok(r) => uname(r), Err(e) => format!("error: {}", e) }}),
                    );
                }
            }
        }
    }
    // unknown / near-miss spellings are errors, never guesses
    for (k, s) in ["", " ", "meterz", "kilo", "m ", " m", "m/s/s", "°", "metre_", "1m", "kmh2", "null", "é", "MILES PER", "sq", "cubic", "square", "per"].iter().enumerate() {
        idx += 1;
        if !ctx.mine(idx) {
            continue;
        }
        sink.case(&format!("unknown|{}", k), true);
        let exp = model_resolve(&all, s);
        let got = units::resolve_unit(s);
        if exp.is_err() && matches!(cv.builtin_resolves(s), ROut::Ok(_)) {
            sink.viol(&format!("unknown-spelling-guessed-by-builtin \"{}\"", s), "the convert built-in accepted an unknown identifier instead of reporting it", json!({"spelling": s, "builtin": cv.builtin_resolves(s).show()}));
        }
        if exp.is_err() && got.is_ok() {
            sink.viol(&format!("unknown-spelling-guessed \"{}\"", s), "an unknown identifier was resolved instead of reported", json!({"spelling": s, "resolved_to": uname(&got.unwrap())}));
        }
    }

    // ---- (2)-(5),(7): conversions over all ordered pairs
    let sess = Sess::new();
    for (ai, a) in all.iter().enumerate() {
        let a0 = a.identifiers[0];
        if units::resolve_unit(a0).is_err() {
            continue; // reported above
        }
        for (bi, b) in all.iter().enumerate() {
            idx += 1;
            if !ctx.mine(idx) {
                continue;
            }
            let b0 = b.identifiers[0];
            if units::resolve_unit(b0).is_err() {
                continue;
            }
            sink.case(&format!("pair|{}|{}", ai, bi), true);
            if a.category != b.category {
                // (7) cross-category: error
                for x in MAGS.iter() {
                    if let Ok(v) = cv.convert(sink, *x, a0, b0) {
                        sink.viol(&format!("cross-category {}->{}", a.category.name(), b.category.name()), "units of different categories are convertible", json!({"value": x, "from": uname(a), "to": uname(b), "result": v}));
                        break;
                    }
                }
                continue;
            }
            for x in MAGS.iter() {
                let r1 = match cv.convert(sink, *x, a0, b0) {
                    Ok(v) => v,
                    Err(e) => {
                        sink.viol(&format!("pair={}->{}", a0, b0), "same-category conversion fails", json!({"from": uname(a), "to": uname(b), "error": e.to_string()}));
                        break;
                    }
                };
                if ai == bi {
                    // (3) identity
                    if r1.to_bits() != x.to_bits() && !(r1 == *x) {
                        sink.viol(&format!("identity unit={}", a0), "converting a unit to itself is not the identity", json!({"unit": uname(a), "value": x, "result": r1}));
                        break;
                    }
                    continue;
                }
                // (4) round trip
                let base = a.convert_to_base(*x);
                let back = match cv.convert(sink, r1, b0, a0) {
                    Ok(v) => v,
                    Err(_) => continue,
                };
                let reciprocal = matches!(a.conversion, units::ConversionType::Reciprocal { .. }) || matches!(b.conversion, units::ConversionType::Reciprocal { .. });
                if reciprocal && *x == 0.0 {
                    continue;
                }
                let temp = matches!(a.conversion, units::ConversionType::Temperature { .. });
                let mag = [x.abs(), base.abs(), r1.abs(), b.convert_to_base(r1).abs(), back.abs(), if temp { 500.0 } else { 0.0 }].iter().cloned().fold(0.0, f64::max);
                if !close(back, *x, mag, 8.0) {
                    sink.viol(&format!("round-trip pair={}->{}", a0, b0), "converting there and back does not return the original value within rounding", json!({"from": uname(a), "to": uname(b), "value": x, "there": r1, "back": back, "tolerance_ulps_of": mag}));
                    break;
                }
                if sink.want_sample() && *x == 37.5 && (ai + bi) % 40 == 0 {
                    sink.sample(json!({"from": a0, "to": b0, "value": x, "there": r1, "back": back}));
                }
            }
            if ai == bi || a.category != b.category {
                continue;
            }
            // (2) all identifiers of a unit behave identically
            for ida in a.identifiers.iter() {
                if units::resolve_unit(ida).is_err() {
                    continue;
                }
                let r0 = cv.convert(sink, 37.5, a0, b0);
                let r = cv.convert(sink, 37.5, ida, b0);
                let rb = cv.convert(sink, 37.5, b0, ida);
                let rb0 = cv.convert(sink, 37.5, b0, a0);
                if let (Ok(r0), Ok(r), Ok(rb), Ok(rb0)) = (r0, r, rb, rb0) {
                    if r0.to_bits() != r.to_bits() || rb.to_bits() != rb0.to_bits() {
                        sink.viol(&format!("alias-differs unit-id=\"{}\"", ida), "two identifiers of one unit convert differently", json!({"unit": uname(a), "identifier": ida, "other": uname(b)}));
                    }
                }
            }
        }
    }

    // ---- (2b) every ordered pair of identifiers of one category (both entry points): the answer
    // depends only on the two units, never on which of their spellings was used
    let mut ip = 0u64;
    for (ai, a) in all.iter().enumerate() {
        let a0 = a.identifiers[0];
        for (bi, b) in all.iter().enumerate() {
            if a.category != b.category {
                continue;
            }
            let b0 = b.identifiers[0];
            ip += 1;
            if !ctx.mine(ip) || units::resolve_unit(a0).is_err() || units::resolve_unit(b0).is_err() {
                continue;
            }
            let Ok(r0) = units::convert(37.5, a0, b0) else { continue };
            for ida in a.identifiers.iter() {
                for idb in b.identifiers.iter() {
                    if units::resolve_unit(ida).is_err() || units::resolve_unit(idb).is_err() {
                        continue;
                    }
                    sink.case(&format!("idpair|{}|{}", ida, idb), ai != bi);
                    match cv.convert(sink, 37.5, ida, idb) {
                        Ok(r) if r.to_bits() == r0.to_bits() => {}
                        other => sink.viol(
                            &format!("alias-pair-differs {}->{}", ida, idb),
                            "a pair of identifiers converts differently from the first identifiers of the same two units",
                            json!({"from": ida, "to": idb, "units": [uname(a), uname(b)], "first_identifiers_give": r0, "got": format!("{:?}", other)}),
                        ),
                    }
                }
            }
        }
    }
    // ---- (7b) units of different categories are never convertible: every ordered pair of IDENTIFIERS (all spellings, not
    // only the first one of each unit), through both entry points
    let mut xp = 0u64;
    for a in all.iter() {
        for b in all.iter() {
            if a.category == b.category {
                continue;
            }
            xp += 1;
            if !ctx.mine(xp) {
                continue;
            }
            // quick: the short symbols (where spellings of different categories are most alike) and the first identifier
            for ida in a.identifiers.iter() {
                for idb in b.identifiers.iter() {
                    if ctx.quick && ida.chars().count() > 3 && idb.chars().count() > 3 && !(*ida == a.identifiers[0] && *idb == b.identifiers[0]) {
                        continue;
                    }
                    if units::resolve_unit(ida).is_err() || units::resolve_unit(idb).is_err() {
                        continue;
                    }
                    sink.case(&format!("xcat|{}|{}", ida, idb), true);
                    for x in [1.0f64, 0.0, -0.0, -2.5] {
                    if let Ok(v) = cv.convert(sink, x, ida, idb) {
                        sink.viol(&format!("cross-category {}->{}", a.category.name(), b.category.name()), "units of different categories are convertible", json!({"value": x, "from_identifier": ida, "to_identifier": idb, "from": uname(a), "to": uname(b), "result": v}));
                        break;
                    }
                    }
                }
            }
        }
    }
    // unresolvable spellings as either argument of the built-in: always an error
    for (k, s) in ["meterz", "", "kilo", "MA", "ma", "Ma", "foobar"].iter().enumerate() {
        if !ctx.mine(k as u64) {
            continue;
        }
        if units::resolve_unit(s).is_ok() {
            continue;
        }
        for other in [*s, "m", "amperes", "bytes"] {
            for (f, t) in [(*s, other), (other, *s)] {
                sink.case(&format!("unres|{}|{}", f, t), true);
                let _ = cv.convert(sink, 1.0, f, t);
                if matches!(cv.builtin(1.0, f, t), ROut::Ok(_)) {
                    sink.viol(&format!("unresolvable-accepted {}->{}", f, t), "a conversion naming an unknown or ambiguous identifier succeeded", json!({"from": f, "to": t}));
                }
            }
        }
    }

    // ---- (5) transitivity over same-category triples (sampled in quick)
    let mut t = 0u64;
    for (ai, a) in all.iter().enumerate() {
        for (bi, b) in all.iter().enumerate() {
            if b.category != a.category || ai == bi {
                continue;
            }
            for (ci, c) in all.iter().enumerate() {
                if c.category != a.category || ci == ai || ci == bi {
                    continue;
                }
                t += 1;
                if ctx.quick && t % 7 != 0 {
                    continue;
                }
                if !ctx.mine(t) {
                    continue;
                }
                let (a0, b0, c0) = (a.identifiers[0], b.identifiers[0], c.identifiers[0]);
                let x = [37.5, -1e-6, 1e6, 1.0][(t % 4) as usize];
                let (Ok(ab), Ok(ac)) = (cv.convert(sink, x, a0, b0), cv.convert(sink, x, a0, c0)) else { continue };
                let Ok(abc) = cv.convert(sink, ab, b0, c0) else { continue };
                sink.case(&format!("triple|{}|{}|{}", ai, bi, ci), true);
                let temp = matches!(a.conversion, units::ConversionType::Temperature { .. });
                let mag = [x.abs(), a.convert_to_base(x).abs(), ab.abs(), ac.abs(), abc.abs(), if temp { 500.0 } else { 0.0 }].iter().cloned().fold(0.0, f64::max);
                if !close(abc, ac, mag, 8.0) {
                    sink.viol(&format!("transitivity {}->{}->{}", a0, b0, c0), "A->B->C differs from A->C beyond rounding", json!({"a": uname(a), "b": uname(b), "c": uname(c), "value": x, "a_to_b_to_c": abc, "a_to_c": ac}));
                }
            }
        }
    }
    sink.count("triples_checked", t);

    // ---- (6) metric-prefix ratios
    if ctx.shard_i == 0 {
        let mut pairs = 0u64;
        for a in all.iter() {
            for b in all.iter() {
                if a.category != b.category || same_unit(a, b) {
                    continue;
                }
                for ida in a.identifiers.iter() {
                    for idb in b.identifiers.iter() {
                        for (lead, power_mul) in [("", 1i32), ("square ", 2), ("cubic ", 3), ("sq ", 2), ("cu ", 3)] {
                            let (Some(ra), Some(rb)) = (ida.strip_prefix(lead), idb.strip_prefix(lead)) else { continue };
                            for (pfx, k, base2) in SI.iter().map(|(p, k)| (*p, *k, false)).chain(SI2.iter().map(|(p, k)| (*p, *k, false))).chain(BIN.iter().map(|(p, k)| (*p, *k, true))) {
                                if ra.len() > pfx.len() && ra.strip_prefix(pfx) == Some(rb) && rb.len() >= 3 {
                                    // `ida` = <lead><prefix><base>, `idb` = <lead><base>
                                    let expected = if base2 { 2f64.powi(k * power_mul) } else { 10f64.powi(k * power_mul) };
                                    if units::resolve_unit(ida).is_err() || units::resolve_unit(idb).is_err() {
                                        continue;
                                    }
                                    let Ok(got) = cv.convert(sink, 1.0, ida, idb) else { continue };
                                    pairs += 1;
                                    sink.case(&format!("prefix|{}|{}", ida, idb), true);
                                    if !close(got, expected, expected, 4.0) {
                                        sink.viol(&format!("prefix-ratio {}/{}", ida, idb), "the ratio between a metric-prefixed name and its base unit is not the prefix's power", json!({"prefixed": ida, "base": idb, "one_prefixed_in_base": got, "expected": expected}));
                                    }
                                }
                            }
                        }
                    }
                }
            }
        }
        sink.count("prefix_pairs", pairs);
        // the built-in goes through the same table, with (value, from, to) in that order
        for (from, to) in [("km", "m"), ("kilometers", "meters"), ("kilograms", "grams"), ("hours", "minutes"), ("celsius", "kelvin")] {
            let lib = cv.convert(sink, 3.0, from, to);
            let got = sess.rout(&sess.eval(&format!("convert(3, \"{}\", \"{}\")", from, to)));
            sink.case(&format!("builtin|{}|{}", from, to), true);
            match lib {
                Ok(v) => {
                    if got != ROut::Ok(RVal::num(v)) {
                        sink.viol("builtin-convert-differs", "the convert built-in differs from the unit table's conversion", json!({"from": from, "to": to, "library": v, "builtin": got.show()}));
                    }
                    if from == "km" && v != 3000.0 {
                        sink.viol("prefix-ratio km/m", "3 km is not 3000 m", json!({"got": v}));
                    }
                }
                Err(_) => {}
            }
        }
        let bad = sess.rout(&sess.eval("convert(1, \"km\", \"kg\")"));
        if matches!(bad, ROut::Ok(_)) {
            sink.viol("cross-category builtin", "convert built-in converts across categories", json!({"got": bad.show()}));
        }
    }
}

fn capitalise(s: &str) -> String {
    let mut c = s.chars();
    match c.next() {
        Some(f) => f.to_uppercase().collect::<String>() + c.as_str(),
        None => String::new(),
    }
}

fn swapcase(s: &str) -> String {
    s.chars().map(|c| if c.is_uppercase() { c.to_lowercase().next().unwrap_or(c) } else { c.to_uppercase().next().unwrap_or(c) }).collect()
}
