//! C13 - via / where / into agree with map / filter / application for every function.

use crate::Ctx;
use crate::out::Sink;
use crate::rng::Rng;
use crate::rt::{RVal, ROut, Sess};
use blots_core::verif_hooks;
use serde_json::json;

/// (class label, setup statements, expression denoting the function, min args, max args (None = rest))
struct FnSpec {
    class: &'static str,
    setup: &'static [&'static str],
    expr: &'static str,
    min: usize,
    max: Option<usize>,
}

fn fn_specs() -> Vec<FnSpec> {
    vec![
        FnSpec { class: "lambda-arity1", setup: &[], expr: "(x => x * 2)", min: 1, max: Some(1) },
        FnSpec { class: "lambda-arity2", setup: &[], expr: "((x, i) => [x, i])", min: 2, max: Some(2) },
        FnSpec { class: "lambda-optional-second", setup: &[], expr: "((x, i?) => [x, i])", min: 1, max: Some(2) },
        FnSpec { class: "lambda-rest", setup: &[], expr: "((...r) => r)", min: 0, max: None },
        FnSpec { class: "lambda-arity3", setup: &[], expr: "((a, b, c) => a)", min: 3, max: Some(3) },
        FnSpec { class: "lambda-arity0", setup: &[], expr: "(() => 1)", min: 0, max: Some(0) },
        FnSpec { class: "lambda-failing", setup: &[], expr: "(x => x + \"s\")", min: 1, max: Some(1) },
        FnSpec { class: "lambda-failing-late", setup: &[], expr: "(x => if x > 3 then nope_undefined else x)", min: 1, max: Some(1) },
        FnSpec { class: "predicate", setup: &[], expr: "(x => x > 2)", min: 1, max: Some(1) },
        FnSpec { class: "predicate-index", setup: &[], expr: "((x, i) => i % 2 == 0)", min: 2, max: Some(2) },
        // open-ended arity: the index must reach a rest parameter under every form (where / filter / every / some alike)
        FnSpec { class: "predicate-rest-index", setup: &[], expr: "((...r) => r[1] % 2 == 0)", min: 0, max: None },
        FnSpec { class: "predicate-rest-count", setup: &[], expr: "((...r) => len(r) == 2)", min: 0, max: None },
        FnSpec { class: "predicate-optional-index", setup: &[], expr: "((x, i?) => i != null and i % 2 == 1)", min: 1, max: Some(2) },
        FnSpec { class: "predicate-one-then-rest", setup: &[], expr: "((x, ...r) => len(r) == 1 and r[0] >= 1)", min: 1, max: None },
        FnSpec { class: "predicate-nonboolean", setup: &[], expr: "(x => x)", min: 1, max: Some(1) },
        FnSpec { class: "predicate-true", setup: &[], expr: "(x => true)", min: 1, max: Some(1) },
        FnSpec { class: "predicate-false", setup: &[], expr: "(x => false)", min: 1, max: Some(1) },
        FnSpec { class: "closure", setup: &["k = 3"], expr: "(x => x + k)", min: 1, max: Some(1) },
        FnSpec { class: "closure-predicate", setup: &["lim = 1"], expr: "(x => x > lim)", min: 1, max: Some(1) },
        FnSpec { class: "named", setup: &["dbl = x => x * 2"], expr: "dbl", min: 1, max: Some(1) },
        FnSpec { class: "named-index", setup: &["pairup = (x, i) => x * 10 + i"], expr: "pairup", min: 2, max: Some(2) },
        FnSpec { class: "named-recursive", setup: &["fact = n => if n <= 1 then 1 else n * fact(n - 1)"], expr: "fact", min: 1, max: Some(1) },
        FnSpec { class: "named-recursive-predicate", setup: &["small = n => if n <= 0 then true else if n > 6 then false else small(n - 1)"], expr: "small", min: 1, max: Some(1) },
        FnSpec {
            class: "mutually-recursive",
            setup: &["ev = n => if n == 0 then true else od(n - 1)", "od = n => if n == 0 then false else ev(n - 1)"],
            expr: "od",
            min: 1,
            max: Some(1),
        },
        // the earlier of the pair: its partner is not in its captured scope, it is found through the caller's names
        FnSpec {
            class: "mutually-recursive-earlier",
            setup: &["ev = n => if n == 0 then true else od(n - 1)", "od = n => if n == 0 then false else ev(n - 1)"],
            expr: "ev",
            min: 1,
            max: Some(1),
        },
        FnSpec { class: "late-bound-data", setup: &["scale_by = x => x * factor_late", "factor_late = 3"], expr: "scale_by", min: 1, max: Some(1) },
        FnSpec { class: "late-bound-predicate", setup: &["above = x => x > bar_late", "bar_late = 2"], expr: "above", min: 1, max: Some(1) },
        FnSpec { class: "late-bound-helper-index", setup: &["tag = (x, i) => [x, i, helper_late(i)]", "helper_late = i => i * 2"], expr: "tag", min: 2, max: Some(2) },
        FnSpec { class: "reducer-late-bound", setup: &["acc_late = (acc, x) => acc + weigh_late(x)", "weigh_late = x => if typeof(x) == \"number\" then x else 0"], expr: "acc_late", min: 2, max: Some(2) },
        FnSpec { class: "named-in-do", setup: &["mk = do {\n  rec = n => if n <= 0 then 0 else 1 + rec(n - 1)\n  return rec\n}"], expr: "mk", min: 1, max: Some(1) },
        FnSpec { class: "curried", setup: &["adder = a => b => a + b"], expr: "adder(10)", min: 1, max: Some(1) },
        FnSpec { class: "builtin-exact1", setup: &[], expr: "abs", min: 1, max: Some(1) },
        FnSpec { class: "builtin-exact1-string", setup: &[], expr: "to_string", min: 1, max: Some(1) },
        FnSpec { class: "builtin-typeof", setup: &[], expr: "typeof", min: 1, max: Some(1) },
        FnSpec { class: "builtin-between", setup: &[], expr: "round", min: 1, max: Some(2) },
        FnSpec { class: "builtin-range", setup: &[], expr: "range", min: 1, max: Some(2) },
        FnSpec { class: "builtin-atleast", setup: &[], expr: "max", min: 1, max: None },
        FnSpec { class: "builtin-sum", setup: &[], expr: "sum", min: 1, max: None },
        FnSpec { class: "builtin-exact2", setup: &[], expr: "ugt", min: 2, max: Some(2) },
        FnSpec { class: "builtin-exact3", setup: &[], expr: "slice", min: 3, max: Some(3) },
        FnSpec { class: "builtin-hof", setup: &[], expr: "len", min: 1, max: Some(1) },
        FnSpec { class: "reducer", setup: &[], expr: "((acc, x) => acc + x)", min: 2, max: Some(2) },
        FnSpec { class: "reducer-index", setup: &[], expr: "((acc, x, i) => acc + x * i)", min: 3, max: Some(3) },
        FnSpec { class: "reducer-rest", setup: &[], expr: "((...r) => r)", min: 0, max: None },
        FnSpec { class: "reducer-named-recursive", setup: &["gsum = (acc, x) => if x <= 0 then acc else gsum(acc + 1, x - 1)"], expr: "gsum", min: 2, max: Some(2) },
        FnSpec { class: "not-a-function", setup: &[], expr: "5", min: 0, max: Some(0) },
    ]
}

fn accepts(f: &FnSpec, n: usize) -> bool {
    n >= f.min && f.max.map(|m| n <= m).unwrap_or(true)
}

fn gen_list(r: &mut Rng) -> Vec<RVal> {
    let n = r.below(11);
    let mode = r.below(6);
    (0..n)
        .map(|_| match mode {
            0..=3 => RVal::num(match r.below(4) {
                0 => r.below(8) as f64,
                1 => r.range(-5, 9) as f64,
                2 => r.range(-40, 40) as f64 / 4.0,
                _ => (r.below(5) + 1) as f64,
            }),
            4 => match r.below(4) {
                0 => RVal::Str(r.pick(&["a", "b", ""]).to_string()),
                1 => RVal::Bool(r.chance(1, 2)),
                2 => RVal::Null,
                _ => RVal::num(r.below(5) as f64),
            },
            _ => RVal::List((0..r.below(3)).map(|_| RVal::num(r.below(5) as f64)).collect()),
        })
        .collect()
}

fn lit(v: &RVal) -> String {
    match v {
        RVal::Num(b) => {
            let x = f64::from_bits(*b);
            if x < 0.0 { format!("(-{})", -x) } else { format!("{}", x) }
        }
        RVal::Str(s) => format!("\"{}\"", s),
        RVal::Bool(b) => b.to_string(),
        RVal::Null => "null".into(),
        RVal::List(l) => format!("[{}]", l.iter().map(lit).collect::<Vec<_>>().join(", ")),
        _ => "null".into(),
    }
}

pub fn run(ctx: &Ctx, sink: &mut Sink) {
    let specs = fn_specs();
    let n = ctx.budget(60_000, 10_000_000);
    for i in 0..n {
        if !ctx.mine(i) {
            continue;
        }
        let mut r = Rng::derive(ctx.seed, "c13", i);
        let f = &specs[(i as usize / ctx.shard_n as usize) % specs.len()];
        let sess = Sess::new();
        let mut setup_ok = true;
        for s in f.setup {
            if !sess.eval(s).is_ok() {
                setup_ok = false;
            }
        }
        if !setup_ok {
            sink.obs("setup-failed", json!({"class": f.class}));
            continue;
        }
        let l = gen_list(&mut r);
        let lsrc = lit(&RVal::List(l.clone()));
        let _ = sess.eval(&format!("l = {}", lsrc));
        let fx = f.expr;
        let ev = |src: &str| sess.rout(&sess.eval(src));

        // ---- the three operator / built-in pairs
        let via = ev(&format!("l via {}", fx));
        let map = ev(&format!("map(l, {})", fx));
        let whr = ev(&format!("l where {}", fx));
        let fil = ev(&format!("filter(l, {})", fx));
        let nontrivial = matches!(via, ROut::Ok(_)) && !l.is_empty();
        sink.case(&format!("c13|{}|{}", f.class, lsrc), nontrivial || (matches!(whr, ROut::Ok(_)) && !l.is_empty()));
        if sink.want_sample() && nontrivial && l.len() > 2 {
            sink.sample(json!({"function": fx, "class": f.class, "list": lsrc, "via": via.show(), "map": map.show()}));
        }
        let mut report = |sink: &mut Sink, form: &str, a_src: String, a: &ROut, b_src: String, b: &ROut| {
            if !a.agrees(b) {
                sink.viol(
                    &format!("form={} callback={}", form, f.class),
                    "the operator form and the built-in / application form disagree",
                    json!({"setup": f.setup, "list": lsrc, "one": a_src, "one_result": a.show(), "other": b_src, "other_result": b.show()}),
                );
            }
        };
        report(sink, "map", format!("l via {}", fx), &via, format!("map(l, {})", fx), &map);
        report(sink, "filter", format!("l where {}", fx), &whr, format!("filter(l, {})", fx), &fil);
        // ---- into vs application
        let x = if l.is_empty() || r.chance(1, 3) { RVal::List(l.clone()) } else { l[0].clone() };
        let xs = lit(&x);
        let into = ev(&format!("{} into {}", xs, fx));
        let app = ev(&format!("{}({})", fx, xs));
        report(sink, "into", format!("{} into {}", xs, fx), &into, format!("{}({})", fx, xs), &app);

        // ---- independent expectation: element and 0-based index, in list order
        let passes_index = accepts(f, 2);
        if f.class == "lambda-arity2" || f.class == "lambda-optional-second" || f.class == "lambda-rest" {
            let exp = RVal::List(l.iter().enumerate().map(|(k, e)| RVal::List(vec![e.clone(), RVal::num(k as f64)])).collect());
            if !via.agrees(&ROut::Ok(exp.clone())) {
                sink.viol(&format!("index-order form=via callback={}", f.class), "callback did not receive (element, 0-based index) in list order", json!({"list": lsrc, "function": fx, "got": via.show(), "expected": exp.show()}));
            }
            if !map.agrees(&ROut::Ok(exp.clone())) {
                sink.viol(&format!("index-order form=map callback={}", f.class), "callback did not receive (element, 0-based index) in list order", json!({"list": lsrc, "function": fx, "got": map.show(), "expected": exp.show()}));
            }
        }
        if f.class == "predicate-index" {
            let exp = RVal::List(l.iter().enumerate().filter(|(k, _)| k % 2 == 0).map(|(_, e)| e.clone()).collect());
            for (form, got) in [("where", &whr), ("filter", &fil)] {
                if !got.agrees(&ROut::Ok(exp.clone())) {
                    sink.viol(&format!("index-order form={} callback={}", form, f.class), "predicate did not receive the 0-based index", json!({"list": lsrc, "got": got.show(), "expected": exp.show()}));
                }
            }
        }
        if f.class == "lambda-arity1" && !l.iter().all(|e| matches!(e, RVal::Num(_))) {
            // nothing: failing elements are covered by the agreement checks
        }
        // ---- every / some = conjunction / disjunction when the predicate succeeds with booleans everywhere
        if let ROut::Ok(RVal::List(results)) = &via {
            if results.iter().all(|x| matches!(x, RVal::Bool(_))) {
                let all = results.iter().all(|x| *x == RVal::Bool(true));
                let any = results.iter().any(|x| *x == RVal::Bool(true));
                let every = ev(&format!("every(l, {})", fx));
                let some = ev(&format!("some(l, {})", fx));
                if !every.agrees(&ROut::Ok(RVal::Bool(all))) {
                    sink.viol(&format!("form=every callback={}", f.class), "every differs from the conjunction of the predicate's results", json!({"setup": f.setup, "list": lsrc, "function": fx, "predicate_results": via.show(), "every": every.show()}));
                }
                if !some.agrees(&ROut::Ok(RVal::Bool(any))) {
                    sink.viol(&format!("form=some callback={}", f.class), "some differs from the disjunction of the predicate's results", json!({"setup": f.setup, "list": lsrc, "function": fx, "predicate_results": via.show(), "some": some.show()}));
                }
                // filter keeps exactly the elements whose result is true, in order
                let exp = RVal::List(l.iter().zip(results.iter()).filter(|(_, b)| **b == RVal::Bool(true)).map(|(e, _)| e.clone()).collect());
                if !whr.agrees(&ROut::Ok(exp.clone())) {
                    sink.viol(&format!("form=where-selection callback={}", f.class), "where does not keep exactly the elements the predicate accepts", json!({"list": lsrc, "function": fx, "got": whr.show(), "expected": exp.show()}));
                }
            }
        }
        // ---- reduce is the left fold from its initial value (fold done by the harness with real calls)
        if f.class.starts_with("reducer") || f.class == "builtin-atleast" || f.class == "builtin-exact2" || f.class == "lambda-arity2" || f.class == "builtin-exact3" {
            // the initial value is any value: a number mostly, but also null / false / empty values (an implementation
            // must not read them as "no initial value")
            let z = match r.below(10) {
                0 => RVal::Null,
                1 => RVal::Bool(false),
                2 => RVal::Str(String::new()),
                3 => RVal::List(vec![]),
                4 => RVal::List(vec![RVal::Null]),
                _ => RVal::num(r.below(4) as f64),
            };
            let red = ev(&format!("reduce(l, {}, {})", fx, lit(&z)));
            let with_index = accepts(f, 3);
            let _ = sess.eval(&format!("acc0 = {}", lit(&z)));
            let mut acc_name = "acc0".to_string();
            let mut failed: Option<ROut> = None;
            for (k, e) in l.iter().enumerate() {
                let nm = format!("acc{}", k + 1);
                let call = if with_index { format!("{} = {}({}, {}, {})", nm, fx, acc_name, lit(e), k) } else { format!("{} = {}({}, {})", nm, fx, acc_name, lit(e)) };
                let o = ev(&call);
                if !matches!(o, ROut::Ok(_)) {
                    failed = Some(o);
                    break;
                }
                acc_name = nm;
            }
            let exp = match failed {
                Some(e) => e,
                None => ev(&acc_name),
            };
            if !red.agrees(&exp) {
                sink.viol(&format!("form=reduce callback={}", f.class), "reduce differs from the left fold from its initial value", json!({"setup": f.setup, "list": lsrc, "function": fx, "initial": lit(&z), "reduce": red.show(), "fold": exp.show()}));
            }
        }
        // ---- call trace (hook H2): once per element, in order, with (element[, index])
        if f.class == "named" || f.class == "named-index" {
            let cb = if f.class == "named" { "dbl" } else { "pairup" };
            for form in ["via", "map", "where-or-filter-skip"] {
                if form == "where-or-filter-skip" {
                    continue;
                }
                verif_hooks::take_calls();
                verif_hooks::set_recording(true);
                let src = if form == "via" { format!("l via {}", cb) } else { format!("map(l, {})", cb) };
                let _ = sess.eval(&src);
                verif_hooks::set_recording(false);
                let calls = verif_hooks::take_calls();
                let want = format!("function \"{}\"", cb);
                let heap = sess.heap.borrow();
                let seen: Vec<Vec<RVal>> = calls.iter().filter(|c| c.name == want).map(|c| c.args.iter().map(|a| crate::rt::rval(a, &heap)).collect()).collect();
                drop(heap);
                sink.count("hook_call_events", calls.len() as u64);
                // stop at the first failing element: the prefix must match
                let exp: Vec<Vec<RVal>> = l.iter().enumerate().map(|(k, e)| if passes_index { vec![e.clone(), RVal::num(k as f64)] } else { vec![e.clone()] }).collect();
                let prefix_ok = seen.len() <= exp.len() && seen.iter().zip(exp.iter()).all(|(a, b)| a == b);
                let complete = seen.len() == exp.len() || !matches!(if form == "via" { &via } else { &map }, ROut::Ok(_));
                if !prefix_ok || !complete {
                    sink.viol(&format!("call-trace form={} callback={}", form, f.class), "callback was not invoked once per element, in order, with (element[, index])", json!({"list": lsrc, "source": src, "calls_seen": seen.iter().map(|a| RVal::List(a.clone()).show()).collect::<Vec<_>>()}));
                }
            }
        }
    }
}
