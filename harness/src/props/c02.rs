//! C02 - evaluation is deterministic and has no effect on values.

use crate::Ctx;
use crate::gens::{Gen, GenCfg, NAMES};
use crate::hexpr::*;
use crate::out::Sink;
use crate::rng::Rng;
use crate::rt::{ROut, Sess, cell_fingerprint};
use blots_core::heap::HeapValue;
use blots_core::values::SerializableValue;
use blots_core::verif_hooks;
use serde_json::json;

fn gen_prog(r: &mut Rng) -> Vec<H> {
    let ns = 2 + r.below(11);
    let depth = 2 + r.below(5);
    let mut stmts = {
        let mut g = Gen::new(r, GenCfg { inputs: true, odd_strings: true, shadowing_permille: 200, ..GenCfg::default() });
        g.program(ns, depth, &NAMES).0
    };
    // sort / reverse / unique / spread on shared lists, random(seed), closures over >= 3 names, records with >= 3 keys
    let extras = [
        "sh = [5, 3, 9, 1, 3]",
        "sorted_once = sort(sh)",
        "rev = reverse(sh)",
        "uq = unique([...sh, ...rev])",
        "rnd = [random(42), random(7), random(42), random(0.5), random(-1), random(1e30)]",
        "rnd2 = [random(inf), random(-inf), random(0 / 0), random(inf) == random(inf)]",
        "k1 = 1",
        "k2 = \"two\"",
        "k3 = [3]",
        "clo = x => [x, k1, k2, k3, sh]",
        "rec3 = {zeta: 1, alpha: [2], mid: {b: 1, a: 2}}",
        "grp = group_by(sh, v => to_string(v % 2))",
        "srt2 = sort_by([[2, \"b\"], [1, \"z\"], [2, \"a\"]], p => p[0])",
        "still = sh",
        "called = clo(0)",
        "ks = keys(rec3)",
        // enumeration order of the built-in records (must not depend on the process / hash seed)
        "kc = keys(constants)",
        "ec = [entries(constants)[0][0], values(constants)[0], to_string(constants)]",
        "spc = keys({...constants, extra: 1})",
        "ki = [keys(inputs), to_string(inputs)]",
        // aggregates and order statistics over a shared list (anything they remember must die with the heap)
        "agg = [percentile(sh, 50), percentile(sh, 0), percentile(sh, 100), median(sh), min(sh), max(sh), sum(sh), avg(sh)]",
        "agg2 = [median([4, 8, 15, 16, 23, 42]), percentile([4, 8, 15, 16, 23, 42], 90), sort([4, 8, 15, 16, 23, 42] via (v => 50 - v))]",
        // distinct closures of one definition that captured equal values (several captured names each)
        "mk4 = (p, q, r, s) => x => [p, q, r, s, x]",
        "ceq = [mk4(1, 2, 3, 4) == mk4(1, 2, 3, 4), mk4(1, 2, 3, 4) .== mk4(1, 2, 3, 4), mk4(1, 2, 3, 4) == mk4(1, 2, 3, 5), includes([mk4(1, 2, 3, 4)], mk4(1, 2, 3, 4)), len(unique([mk4(1, 2, 3, 4), mk4(1, 2, 3, 4), mk4(\"a\", [1], {k: 1}, null), mk4(\"a\", [1], {k: 1}, null)]))]",
    ];
    // spellings whose meaning depends on letter case (kb = kilobits, kB = kilobytes, ...): a
    // process-wide cache keyed on something coarser than the spelling would make results depend on
    // what was evaluated earlier
    let unit_pairs = [
        ("kb", "b"), ("kB", "b"), ("KB", "b"), ("Kb", "b"), ("mm", "m"), ("Mm", "m"), ("MM", "m"), ("mW", "W"), ("MW", "W"), ("mA", "A"), ("MA", "A"), ("ma", "A"),
        ("c", "kelvin"), ("C", "Ah"), ("Gb", "b"), ("GB", "b"), ("km", "m"), ("KM", "M"), ("celsius", "F"), ("f", "c"),
    ];
    let mut unit_stmts: Vec<String> = Vec::new();
    for k in 0..(1 + r.below(4)) {
        let (a, b) = unit_pairs[r.below(unit_pairs.len())];
        unit_stmts.push(format!("conv{} = convert({}, \"{}\", \"{}\")", k, 1 + r.below(9), a, b));
    }
    let n_extra = 3 + r.below(extras.len() - 3);
    let start = r.below(extras.len());
    let mut used: Vec<&str> = Vec::new();
    for i in 0..n_extra {
        let e = extras[(start + i) % extras.len()];
        used.push(e);
    }
    // keep dependency order: sort by position in `extras`
    used.sort_by_key(|e| extras.iter().position(|x| x == e).unwrap());
    let mut out: Vec<H> = Vec::new();
    for e in used {
        if let Ok(mut p) = crate::rt::parse_program(e) {
            out.push(p.remove(0));
        }
    }
    for e in &unit_stmts {
        if let Ok(mut p) = crate::rt::parse_program(e) {
            out.push(p.remove(0));
        }
    }
    out.append(&mut stmts);
    out
}

/// the same text with every unsigned integer literal n replaced by n + 1 (digits inside names, strings and fractions untouched)
fn perturb_integers(src: &str) -> String {
    let cs: Vec<char> = src.chars().collect();
    let mut out = String::new();
    let mut i = 0;
    let mut quote: Option<char> = None;
    while i < cs.len() {
        let c = cs[i];
        if let Some(q) = quote {
            out.push(c);
            if c == q {
                quote = None;
            }
            i += 1;
            continue;
        }
        if c == '"' || c == '\'' {
            quote = Some(c);
            out.push(c);
            i += 1;
            continue;
        }
        let prev = if i > 0 { cs[i - 1] } else { ' ' };
        if c.is_ascii_digit() && !(prev.is_alphanumeric() || prev == '_' || prev == '.' || prev == '#') {
            let mut j = i;
            while j < cs.len() && cs[j].is_ascii_digit() {
                j += 1;
            }
            let next = if j < cs.len() { cs[j] } else { ' ' };
            let text: String = cs[i..j].iter().collect();
            if next == '.' || next == 'e' || next == 'x' || next == 'b' || next == '_' || next.is_alphabetic() || text.len() > 12 {
                out.push_str(&text);
            } else {
                out.push_str(&(text.parse::<u64>().unwrap_or(0) + 1).to_string());
            }
            i = j;
            continue;
        }
        out.push(c);
        i += 1;
    }
    out
}

struct RunResult {
    per_stmt: Vec<ROut>,
    outputs_json: String,
    heap_mutations: Vec<String>,
}

fn run_once(src: &str, stmt_texts: &[String], monitor_heap: bool) -> Option<RunResult> {
    let sess = Sess::new();
    let mut heap_mutations = Vec::new();
    let per_stmt: Vec<ROut>;
    if monitor_heap {
        // statement at a time with heap fingerprints in between
        let stmts: Vec<&str> = stmt_texts.iter().map(|s| s.as_str()).collect();
        let mut marks: Vec<Option<u64>> = Vec::new();
        let mut outs = Vec::new();
        for s in stmts {
            {
                let n = sess.heap_len();
                let h = sess.heap.borrow();
                while marks.len() < n {
                    let i = marks.len();
                    marks.push(cell_fingerprint(&h, i).map(|x| crate::out::fnv(&x)));
                }
            }
            verif_hooks::take_heap_muts();
            verif_hooks::set_recording(true);
            let o = sess.run(s, false).ok()?;
            verif_hooks::set_recording(false);
            let muts = verif_hooks::take_heap_muts();
            for so in o {
                outs.push(sess.rout(&so.out));
            }
            let h = sess.heap.borrow();
            for (i, m) in marks.iter().enumerate() {
                if cell_fingerprint(&h, i).map(|x| crate::out::fnv(&x)) != *m {
                    heap_mutations.push(format!("cell {} changed during `{}`", i, s));
                    break;
                }
            }
            for m in muts {
                if !matches!(h.get(m), Some(HeapValue::Lambda(_))) {
                    heap_mutations.push(format!("get_mut on data cell {} during `{}`", m, s));
                }
            }
        }
        per_stmt = outs;
    } else {
        let o = sess.run(src, false).ok()?;
        per_stmt = o.iter().map(|so| sess.rout(&so.out)).collect();
    }
    // outputs as the CLI would write them
    let outs = sess.outputs.borrow();
    let heap = sess.heap.borrow();
    let mut m = indexmap::IndexMap::new();
    for (k, v) in outs.iter() {
        if let Ok(sv) = SerializableValue::from_value(v, &heap) {
            m.insert(k.clone(), sv.to_json());
        }
    }
    let outputs_json = serde_json::to_string(&m).unwrap_or_default();
    Some(RunResult { per_stmt, outputs_json, heap_mutations })
}

fn strict_paths(h: &H, prefix: &mut Vec<usize>, out: &mut Vec<Vec<usize>>) {
    let mut kids: Vec<H> = Vec::new();
    h.for_children(&mut |c| kids.push(c.clone()));
    for pos in strict_child_positions(h) {
        if pos >= kids.len() {
            continue;
        }
        let k = &kids[pos];
        if matches!(k, H::Spread(_) | H::Assign(..) | H::Output(_)) {
            // not an expression that can be named; but its strict children can
            if let H::Spread(_) = k {
                prefix.push(pos);
                strict_paths(k, prefix, out);
                prefix.pop();
            }
            continue;
        }
        prefix.push(pos);
        out.push(prefix.clone());
        strict_paths(k, prefix, out);
        prefix.pop();
    }
}

fn get_at<'a>(h: &'a H, path: &[usize]) -> H {
    if path.is_empty() {
        return h.clone();
    }
    let mut kids: Vec<H> = Vec::new();
    h.for_children(&mut |c| kids.push(c.clone()));
    get_at(&kids[path[0]], &path[1..])
}

fn replace_at(h: &H, path: &[usize], new: &H) -> H {
    if path.is_empty() {
        return new.clone();
    }
    let mut kids: Vec<H> = Vec::new();
    h.for_children(&mut |c| kids.push(c.clone()));
    let sub = replace_at(&kids[path[0]], &path[1..], new);
    replace_nth_child(h, path[0], &sub)
}

/// (6) directed let-abstraction: expressions whose subexpressions are heap values (records, lists, strings,
/// functions) handed to order-sensitive built-ins, called, or compared. Every strict subexpression is named on its
/// own, and every disjoint pair is named in both orders (which changes the order of allocation and nothing else).
fn heap_elem(r: &mut Rng, depth: u32) -> String {
    match r.below(if depth == 0 { 11 } else { 8 }) {
        0 => format!("{{a: {}}}", r.below(3)),
        1 => format!("{{b: {}, a: {}}}", r.below(3), r.below(2)),
        2 => format!("[{}]", r.below(3)),
        3 => "[]".to_string(),
        4 => format!("\"s{}\"", r.below(3)),
        5 => format!("{}", r.below(4)),
        6 => format!("(q => q + {})", r.below(3)),
        7 => (*r.pick(&["null", "true", "{}", "\"\""])).to_string(),
        8 => format!("[{}, {}]", heap_elem(r, depth + 1), heap_elem(r, depth + 1)),
        9 => format!("{{k: {}}}", heap_elem(r, depth + 1)),
        _ => format!("[1, {}]", r.below(3)),
    }
}

fn directed_expr(r: &mut Rng) -> String {
    let n = 2 + r.below(4);
    let elems: Vec<String> = (0..n).map(|_| heap_elem(r, 0)).collect();
    let list = format!("[{}]", elems.join(", "));
    match r.below(26) {
        // expressions that bind names inside function bodies: nothing of that may survive the call
        20 => format!("(() => (t_in = {}) .== t_in)()", elems[0]),
        21 => format!("(() => [t_in = {}, t_in])()", elems[0]),
        22 => format!("((() => (t_in = 1) + 1)() + (() => (t_in = 2) + 1)())"),
        23 => format!("[1, 2] via (q => (t_in = q) + 1)"),
        24 => format!("{{a: (() => (t_in = {}))()}}.a", elems[0]),
        25 => format!("(() => do {{\n t_in = {}\n return [t_in]\n}})()", elems[0]),
        0 | 1 | 2 => format!("sort({})", list),
        3 | 4 => format!("sort_by({}, e => e)", list),
        5 => format!("sort_by({}, e => typeof(e))", list),
        6 => format!("unique({})", list),
        7 => format!("reverse({})", list),
        8 => format!("group_by({}, e => typeof(e))", list),
        9 => format!("count_by({}, e => typeof(e))", list),
        10 => format!("concat({}, {})", list, list),
        11 => format!("zip({}, {})", list, list),
        12 => format!("{} .== {}", list, list),
        13 => format!("{} where (e => typeof(e) == \"record\")", list),
        14 => "(do {\n go = n => if n <= 1 then 1 else n * go(n - 1)\n return go\n})(5)".to_string(),
        15 => format!("(do {{\n h = x => [x, {}]\n return h\n}})({})", elems[0], elems[1]),
        16 => format!("[q => [q, {}]][0]({})", elems[0], elems[1]),
        17 => format!("{{f: n => [n, {}]}}.f({})", elems[0], elems[1]),
        18 => format!("((a, b) => [b, a])({}, {})", elems[0], elems[1]),
        _ => format!("sort(unique(concat({}, reverse({}))))", list, list),
    }
}

fn part_directed(ctx: &Ctx, sink: &mut Sink) {
    let n = ctx.budget(6_000, 120_000);
    for i in 0..n {
        if !ctx.mine(i) {
            continue;
        }
        let mut r = Rng::derive(ctx.seed, "c02-directed", i);
        let src = directed_expr(&mut r);
        let Ok(mut prog) = crate::rt::parse_program(&src) else {
            sink.obs("directed-expression-unparsable", json!({"source": src}));
            continue;
        };
        let e = prog.remove(0);
        let base = {
            let s = Sess::new();
            let first = s.rout(&s.eval(&print_min(&assign("res", e.clone()))));
            // the same expression once more in the same session
            let second = s.rout(&s.eval(&print_min(&assign("res_again", e.clone()))));
            sink.count("directed_double_evaluations", 1);
            if !first.agrees(&second) {
                sink.viol("double-evaluation-differs directed", "evaluating an expression twice gives different results", json!({"expression": src, "first": first.show(), "second": second.show()}));
            }
            first
        };
        let mut paths = Vec::new();
        strict_paths(&e, &mut Vec::new(), &mut paths);
        paths.retain(|p| !matches!(get_at(&e, p), H::Num(_) | H::Id(_) | H::Bool(_) | H::Null | H::BuiltIn(_) | H::InRef(_)));
        sink.case(&format!("c02d|{}", src), matches!(base, ROut::Ok(_)) && paths.len() >= 2);
        let mut report = |sink: &mut Sink, names: Vec<(String, String)>, abstracted: &H, got: &ROut| {
            sink.viol(
                "let-abstraction-differs directed",
                "binding a subexpression to a fresh name and using the name in its place changes the result",
                json!({"expression": src, "bindings_in_order": names, "abstracted": print_min(abstracted), "original_result": base.show(), "abstracted_result": got.show()}),
            );
        };
        // single abstractions
        for p in paths.iter() {
            let sub = get_at(&e, p);
            let s2 = Sess::new();
            let t = s2.rout(&s2.eval(&print_min(&assign("t_abs", sub.clone()))));
            if !matches!(t, ROut::Ok(_)) {
                continue;
            }
            let replaced = replace_at(&e, p, &id("t_abs"));
            let got = s2.rout(&s2.eval(&print_min(&assign("res", replaced.clone()))));
            sink.count("directed_let_abstractions", 1);
            if !base.agrees(&got) {
                report(sink, vec![("t_abs".to_string(), print_min(&sub))], &replaced, &got);
                break;
            }
        }
        // disjoint pairs, bound in both orders
        let mut pairs_done = 0;
        'outer: for (ai, pa) in paths.iter().enumerate() {
            for pb in paths.iter().skip(ai + 1) {
                let disjoint = !(pa.starts_with(pb) || pb.starts_with(pa));
                if !disjoint || pairs_done >= 6 {
                    continue;
                }
                pairs_done += 1;
                let (sa, sb) = (get_at(&e, pa), get_at(&e, pb));
                let replaced = replace_at(&replace_at(&e, pa, &id("t_a")), pb, &id("t_b"));
                for order in 0..2 {
                    let s2 = Sess::new();
                    let binds = if order == 0 { vec![("t_a", &sa), ("t_b", &sb)] } else { vec![("t_b", &sb), ("t_a", &sa)] };
                    let mut ok = true;
                    for (nm, sub) in binds.iter() {
                        if !matches!(s2.rout(&s2.eval(&print_min(&assign(nm, (*sub).clone())))), ROut::Ok(_)) {
                            ok = false;
                        }
                    }
                    if !ok {
                        continue;
                    }
                    let got = s2.rout(&s2.eval(&print_min(&assign("res", replaced.clone()))));
                    sink.count("directed_let_abstraction_pairs", 1);
                    if !base.agrees(&got) {
                        report(sink, binds.iter().map(|(n, s)| (n.to_string(), print_min(s))).collect(), &replaced, &got);
                        break 'outer;
                    }
                }
            }
        }
        if sink.want_sample() && paths.len() >= 3 {
            sink.sample(json!({"part": "directed let-abstraction", "expression": src, "result": base.show(), "subexpressions_named": paths.len()}));
        }
    }
}

/// (7) let-abstraction of *literal* operands of scalar arithmetic: `a ^ 3` against `t = 3`, `a ^ t`, against
/// `(p => a ^ p)(3)` and against the literal read from a list. Compared bit for bit: an evaluator that treats an operand
/// differently when it is written as a literal (a fast path keyed on the syntax tree) gives results that differ in the
/// last place only.
fn part_scalar_literals(ctx: &Ctx, sink: &mut Sink) {
    const BASES: [&str; 22] = ["1.2", "1.3", "2.3", "0.3", "0.1", "0.7", "1.1", "1.7", "3", "2", "10", "0.5", "1e-3", "1e10", "7", "0", "1.0000001", "123.456", "9.99", "0.2", "1e-7", "2.5e3"];
    const SECOND: [&str; 22] = ["2", "3", "4", "5", "7", "10", "0", "1", "-1", "-2", "-3", "64", "65", "100", "0.5", "1.5", "-0.5", "3.0", "1e2", "0.1", "0.3", "1e-3"];
    const TEMPLATES: [&str; 26] = [
        "A ^ B", "A * B", "A / B", "A % B", "A + B", "A - B", "A ^ B ^ C", "A * B * C", "A / B / C", "A + B + C", "(A ^ B) * C", "A ^ (B + 1)", "-A ^ B", "[A, C] ^ B", "A ^ [B, C]",
        "A ^ B == A ^ B", "round(A * B, 3)", "sqrt(A) ^ B", "log(A, 10) * B", "min(A ^ B, C)", "A ^ B + A * B - A / B", "(A + B) ^ C", "abs(A - B) ^ C", "exp(A) / B", "A < B", "[A ^ B, A * C] via (q => q ^ B)",
    ];
    let n = ctx.budget(5_000, 150_000);
    for i in 0..n {
        if !ctx.mine(i) {
            continue;
        }
        let mut r = Rng::derive(ctx.seed, "c02-literals", i);
        // the first TEMPLATES x BASES x SECOND cases walk `A ^ B` and friends systematically, the rest are random
        let (t, a, b) = if (i as usize) < TEMPLATES.len() * BASES.len() {
            let k = i as usize;
            (TEMPLATES[k % TEMPLATES.len()], BASES[(k / TEMPLATES.len()) % BASES.len()], SECOND[(k / 7) % SECOND.len()])
        } else {
            (*r.pick(&TEMPLATES), *r.pick(&BASES), *r.pick(&SECOND))
        };
        let c = *r.pick(&SECOND);
        let src = t.replace('A', a).replace('B', b).replace('C', c);
        let Ok(mut prog) = crate::rt::parse_program(&src) else {
            sink.obs("literal-expression-unparsable", json!({"source": src}));
            continue;
        };
        let e = prog.remove(0);
        let base = {
            let s = Sess::new();
            s.rout(&s.eval(&print_min(&assign("res", e.clone()))))
        };
        let mut paths = Vec::new();
        strict_paths(&e, &mut Vec::new(), &mut paths);
        // the literal leaves, and a literal under its sign
        paths.retain(|p| match get_at(&e, p) {
            H::Num(_) => true,
            H::Un(crate::hexpr::UOp::Neg, inner) => matches!(*inner, H::Num(_)),
            _ => false,
        });
        sink.case(&format!("c02l|{}", src), matches!(base, ROut::Ok(_)) && !paths.is_empty());
        for p in paths.iter() {
            let sub = get_at(&e, p);
            for how in 0..3 {
                let s2 = Sess::new();
                let (setup, replaced, label) = match how {
                    0 => (print_min(&assign("t_abs", sub.clone())), print_min(&assign("res", replace_at(&e, p, &id("t_abs")))), "named"),
                    1 => ("1".to_string(), format!("res = (p_abs => ({}))({})", print_min(&replace_at(&e, p, &id("p_abs"))), print_min(&sub)), "parameter"),
                    _ => (format!("l_abs = [{}]", print_min(&sub)), format!("res = {}", print_min(&replace_at(&e, p, &id("l_abs"))).replace("l_abs", "l_abs[0]")), "list element"),
                };
                if !matches!(s2.rout(&s2.eval(&setup)), ROut::Ok(_)) {
                    continue;
                }
                let got = s2.rout(&s2.eval(&replaced));
                sink.count("literal_let_abstractions", 1);
                if !base.agrees(&got) {
                    sink.viol(
                        &format!("let-abstraction-differs literal-operand via={}", label),
                        "replacing a literal operand by a name bound to that literal changes the result",
                        json!({"expression": src, "literal": print_min(&sub), "setup": setup, "abstracted": replaced, "original_result": base.show(), "abstracted_result": got.show()}),
                    );
                    break;
                }
            }
        }
        if sink.want_sample() && i % 50 == 0 {
            sink.sample(json!({"part": "literal let-abstraction", "expression": src, "result": base.show(), "literals_named": paths.len()}));
        }
    }
}

/// (8) programs that read their inputs (`#name`, `inputs.name`, inside functions, callbacks and do-blocks), evaluated in
/// sessions whose input documents lay the heap out differently, with unrelated input-reading evaluations in between:
/// the same program on the same inputs gives the same results whatever was evaluated before on this thread, and
/// `#name` equals `inputs.name` throughout.
fn part_inputs(ctx: &Ctx, sink: &mut Sink) {
    let docs = [
        json!({"x": 2, "a": 1}),
        json!({"cfg": {"x": 1, "a": 7}, "x": 2, "a": 3}),
        json!({"pad": "some text", "more": [1, 2, [3, {"x": 9}]], "x": 5, "a": 4, "s": "str"}),
        json!({"a": 10}),
        json!({"x": [1, 2, 3], "a": {"x": 100}, "deep": {"deeper": {"x": 1, "a": 2}}}),
        json!({}),
        json!({"x": null, "a": false, "f": {"__blots_function": "(q) => q + 1"}}),
        json!({"k1": "v1", "k2": "v2", "k3": "v3", "k4": {"k5": ["v6"]}, "x": 42, "a": -1}),
    ];
    let programs = [
        "#x",
        "[#x, inputs.x]",
        "#x .== inputs.x",
        "f = k => #x * k + inputs.x\nf(10)",
        "g = () => [#a, #x, #absent]\ng()",
        "[1, 2] via (q => [q, #a])",
        "do {\n t = #a\n return [t, inputs.a, #x]\n}",
        "h = n => if n <= 0 then #a else h(n - 1)\nh(3)",
        "output o = #x\noutput p = {a: #a, whole: inputs}",
        "keys(inputs)",
        "#absent ?? \"none\"",
        "typeof(#x) + typeof(inputs.a)",
    ];
    let run = |doc: &serde_json::Value, prog: &str| -> Vec<ROut> {
        let s = Sess::with_inputs(doc);
        match s.run(prog, false) {
            Ok(outs) => outs.iter().map(|o| s.rout(&o.out)).collect(),
            Err(e) => vec![ROut::Err(e)],
        }
    };
    let n = ctx.budget(1_500, 60_000);
    for i in 0..n {
        if !ctx.mine(i) {
            continue;
        }
        let mut r = Rng::derive(ctx.seed, "c02-inputs", i);
        let (di, pi) = if (i as usize) < docs.len() * programs.len() { ((i as usize) % docs.len(), (i as usize) / docs.len()) } else { (r.below(docs.len()), r.below(programs.len())) };
        let (doc, prog) = (&docs[di], programs[pi]);
        // reference: a brand-new thread (no thread-local state from earlier evaluations)
        let (d2, p2) = (doc.clone(), prog.to_string());
        let fresh = std::thread::spawn(move || {
            let s = Sess::with_inputs(&d2);
            match s.run(&p2, false) {
                Ok(outs) => outs.iter().map(|o| s.rout(&o.out).show()).collect::<Vec<_>>(),
                Err(e) => vec![format!("Err({})", e)],
            }
        })
        .join()
        .unwrap_or_default();
        // on this (long-lived) thread: an unrelated input-reading evaluation on another document first
        let other_doc = &docs[(di + 1 + r.below(docs.len() - 1)) % docs.len()];
        let _ = run(other_doc, programs[r.below(programs.len())]);
        let here = run(doc, prog);
        let again = run(doc, prog);
        sink.case(&format!("c02i|{}|{}", di, pi), !here.is_empty() && matches!(here[here.len() - 1], ROut::Ok(_)));
        sink.count("input_reading_twin_runs", 1);
        let shown: Vec<String> = here.iter().map(|o| o.show()).collect();
        if shown != fresh || here.len() != again.len() || here.iter().zip(again.iter()).any(|(a, b)| !a.agrees(b)) {
            sink.viol(
                "twin-run-differs input-reading-program",
                "a program reading its inputs gives different results on a fresh thread and after unrelated evaluations on a long-lived one",
                json!({"inputs": doc, "program": prog, "evaluated_before_with_inputs": other_doc, "fresh_thread": fresh, "after_other_evaluations": shown, "once_more": again.iter().map(|o| o.show()).collect::<Vec<_>>()}),
            );
        }
        // `#x` is `inputs.x`
        if prog == "[#x, inputs.x]" {
            if let Some(ROut::Ok(crate::rt::RVal::List(l))) = here.last() {
                if l.len() == 2 && l[0] != l[1] {
                    sink.viol("input-reference-differs-from-field-access", "`#x` and `inputs.x` differ", json!({"inputs": doc, "got": shown}));
                }
            }
        }
    }
}

/// (9) observe / act / observe: evaluating an expression (the action) has no effect on what another expression (the
/// observation) evaluates to in the same session. The actions handle values the observation depends on - functions held in
/// lists / records / returned by calls bound to do-block locals, lists handed to sorting and reversing built-ins, records
/// spread and indexed - under local names that the observed function mentions.
fn part_effects(ctx: &Ctx, sink: &mut Sink) {
    if ctx.shard_i != 0 {
        return;
    }
    let setups: [(&[&str], &str); 6] = [
        (&["fs = [n => if n <= 0 then 0 else g(n - 1) + 1]", "g = n => 100"], "fs[0](3)"),
        (&["r = {f: n => if n <= 0 then 0 else g(n - 1) + 1}", "g = n => 100"], "r.f(3)"),
        (&["mk = () => (n => if n <= 0 then 0 else g(n - 1) + 1)", "h = mk()", "g = n => 100"], "h(3)"),
        (&["fs = [x => g]", "g = 5"], "fs[0](1)"),
        (&["xs = [3, 1, 2]", "g = 7"], "[xs, sort(xs), g]"),
        (&["fs = [(a, b?) => [a, b, g]]", "g = 1"], "fs[0](1)"),
    ];
    let actions = [
        "do {\n g = fs[0]\n return g(0)\n}", "do {\n g = r.f\n return g(0)\n}", "do {\n g = mk()\n return g(0)\n}", "do {\n g = h\n return g(0)\n}",
        "do {\n g = if true then fs[0] else 0\n return 1\n}", "do {\n g = [fs[0]][0]\n return 1\n}", "do {\n g = (q => q)(fs[0])\n return 1\n}", "(g => g(0))(fs[0])",
        "[fs[0]] via (g => 1)", "do {\n g = reverse(xs)\n return sort(g)\n}", "do {\n xs = sort(xs)\n return xs\n}", "do {\n g = {...r}\n return g.f(0)\n}",
        "do {\n g = fs\n return g[0](0)\n}", "do {\n t = fs[0]\n g = t\n return g(0)\n}",
    ];
    for (si, (setup, obs)) in setups.iter().enumerate() {
        for (ai, act) in actions.iter().enumerate() {
            let sess = Sess::new();
            for st in setup.iter() {
                let _ = sess.eval(st);
            }
            let before = sess.rout(&sess.eval(obs));
            let acted = sess.rout(&sess.eval(act));
            let after = sess.rout(&sess.eval(obs));
            // the action once more, and the observation once more
            let _ = sess.eval(act);
            let later = sess.rout(&sess.eval(obs));
            sink.case(&format!("c02e|{}|{}", si, ai), matches!(before, ROut::Ok(_)) && matches!(acted, ROut::Ok(_)));
            sink.count("observe_act_observe", 1);
            if !before.agrees(&after) || !before.agrees(&later) {
                sink.viol(
                    "evaluation-has-an-effect observe-act-observe",
                    "evaluating one expression changed what another expression evaluates to",
                    json!({"setup": setup, "observation": obs, "action": act, "before": before.show(), "after": after.show(), "after_second_action": later.show(), "action_result": acted.show()}),
                );
            }
        }
    }
}

/// (10) one name for *several* occurrences of the same subexpression: `X .== X` against `t = X`, `t .== t`, against
/// `(p => p .== p)(X)` and against an alias of the name (`u = t`, `t .== u`). Naming makes the occurrences one heap cell
/// where the inline form has one cell per occurrence, so anything that looks at cell identity instead of contents - an
/// early exit of .== / unique / includes on "the same cell" - shows when the contents are not equal to themselves (NaN
/// anywhere inside) or are not comparable.
fn part_shared_name(ctx: &Ctx, sink: &mut Sink) {
    let nan_elems = [
        "(0 / 0)", "[0 / 0]", "{a: 0 / 0}", "[1, [0 / 0]]", "{k: [0 / 0], j: 1}", "[-(0 / 0)]", "[inf - inf, 2]", "[sqrt(-1)]", "{a: {b: 0 / 0}}", "[[], 0 / 0]",
        "[q => q]", "{f: q => q}", "[1, \"a\"]", "[null, 0 / 0]", "(q => q + 1)",
    ];
    let ctxs: [&str; 22] = [
        "X .== X", "X .!= X", "X == X", "X != X", "X .<= X", "X .>= X", "X .< X", "unique([X, X])", "len(unique([X, X, X]))", "includes([X], X)", "includes([0, X], X)",
        "[X, 1] .== [X, 1]", "{k: X} .== {k: X}", "{k: X, j: 1} .== {j: 1, k: X}", "[[X]] .== [[X]]", "unique([[X], [X], 1])", "sort([X, X])", "sort_by([X, X], e => e)",
        "[X] .== [X, X]", "any([X] via (e => e .== X))", "all([X, X] via (e => e .== X))", "if X .== X then \"same\" else \"different\"",
    ];
    let n = ctx.budget(1_200, 24_000);
    for i in 0..n {
        if !ctx.mine(i) {
            continue;
        }
        let mut r = Rng::derive(ctx.seed, "c02-shared", i);
        let x = if (i as usize) < nan_elems.len() * ctxs.len() {
            nan_elems[(i as usize) / ctxs.len()].to_string()
        } else if r.below(3) == 0 {
            heap_elem(&mut r, 0)
        } else {
            let a = *r.pick(&nan_elems);
            match r.below(4) {
                0 => format!("[{}, {}]", a, heap_elem(&mut r, 1)),
                1 => format!("{{z: {}, y: {}}}", heap_elem(&mut r, 1), a),
                2 => format!("[{}]", a),
                _ => a.to_string(),
            }
        };
        let c = if (i as usize) < nan_elems.len() * ctxs.len() { ctxs[(i as usize) % ctxs.len()] } else { *r.pick(&ctxs) };
        let inline_src = c.replace('X', &format!("({})", x));
        let base = {
            let s = Sess::new();
            s.rout(&s.eval(&format!("res = {}", inline_src)))
        };
        sink.case(&format!("c02s|{}|{}", c, x), matches!(base, ROut::Ok(_)));
        let forms: [(&str, Vec<String>, String); 4] = [
            ("one-name", vec![format!("t_sh = {}", x)], format!("res = {}", c.replace('X', "t_sh"))),
            ("name-and-alias", vec![format!("t_sh = {}", x), "u_sh = t_sh".to_string()], format!("res = {}", c.replacen('X', "t_sh", 1).replace('X', "u_sh"))),
            ("parameter", vec![], format!("res = (p_sh => ({}))({})", c.replace('X', "p_sh"), x)),
            ("do-local", vec![], format!("res = do {{\n l_sh = {}\n return {}\n}}", x, c.replace('X', "l_sh"))),
        ];
        for (form, binds, stmt) in forms.iter() {
            let s2 = Sess::new();
            let mut ok = true;
            for b in binds.iter() {
                if !matches!(s2.rout(&s2.eval(b)), ROut::Ok(_)) {
                    ok = false;
                }
            }
            if !ok {
                continue;
            }
            let got = s2.rout(&s2.eval(stmt));
            sink.count("shared_name_abstractions", 1);
            if !base.agrees(&got) {
                sink.viol(
                    &format!("let-abstraction-differs shared-name form={}", form),
                    "binding a subexpression to a fresh name and using the name in place of each of its occurrences changes the result",
                    json!({"inline": inline_src, "bindings": binds, "abstracted": stmt, "inline_result": base.show(), "abstracted_result": got.show()}),
                );
                break;
            }
        }
        if sink.want_sample() {
            sink.sample(json!({"part": "shared-name abstraction", "inline": inline_src, "result": base.show()}));
        }
    }
}

pub fn run(ctx: &Ctx, sink: &mut Sink) {
    part_shared_name(ctx, sink);
    part_effects(ctx, sink);
    part_inputs(ctx, sink);
    part_directed(ctx, sink);
    part_scalar_literals(ctx, sink);
    let cli = ctx.opt("cli").map(|s| s.to_string());
    let n = ctx.budget(16_000, 200_000);
    for i in 0..n {
        if !ctx.mine(i) {
            continue;
        }
        let mut r = Rng::derive(ctx.seed, "c02", i);
        let stmts = gen_prog(&mut r);
        let src = print_program(&stmts, Mode::Min);
        // ---- (1) twin runs in one process, unrelated evaluations in between; (3) heap monitor on the first
        let texts: Vec<String> = {
            let mut p = Printer::new(Mode::Min);
            stmts.iter().map(|st| p.print_stmt(st)).collect()
        };
        let Some(first) = run_once(&src, &texts, true) else {
            sink.obs("generated-program-unparsable", json!({"source": src}));
            continue;
        };
        let ok_heap_values = first.per_stmt.iter().filter(|o| matches!(o, ROut::Ok(crate::rt::RVal::List(_) | crate::rt::RVal::Rec(_) | crate::rt::RVal::Fn { .. } | crate::rt::RVal::Str(_)))).count();
        let nontrivial = ok_heap_values >= 1 && (src.contains("=>") || src.contains('{'));
        sink.case(&format!("c02|{}", src), nontrivial);
        if sink.want_sample() && nontrivial && src.len() < 700 {
            sink.sample(json!({"program": src, "results": first.per_stmt.iter().map(|o| o.show()).collect::<Vec<_>>(), "outputs": first.outputs_json}));
        }
        for m in &first.heap_mutations {
            sink.viol("heap-cell-mutated-by-evaluation", "evaluation changed a value that already existed", json!({"program": src, "what": m}));
        }
        for twin in 0..3 {
            // unrelated evaluation in between (shares process-wide statics, fresh hash seeds)
            let mut r2 = Rng::derive(ctx.seed ^ 0x55, "c02-other", i * 4 + twin);
            // twin 1: the in-between program is this very program with every integer literal changed - same shape, same heap
            // slots, other data (what a cache keyed by position rather than by value would confuse)
            let other = if twin == 1 { perturb_integers(&src) } else { print_program(&gen_prog(&mut r2), Mode::Min) };
            let _ = run_once(&other, &[], false);
            let Some(again) = run_once(&src, &[], false) else { continue };
            if again.per_stmt.len() != first.per_stmt.len() {
                sink.viol("twin-run-statement-count", "two runs of one program produced different numbers of results", json!({"program": src}));
                continue;
            }
            for (k, (a, b)) in first.per_stmt.iter().zip(again.per_stmt.iter()).enumerate() {
                if !a.agrees(b) {
                    sink.viol("twin-run-differs", "the same program evaluated twice in one process gives different values / status", json!({"program": src, "statement_index": k, "first": a.show(), "again": b.show()}));
                    break;
                }
                if let (ROut::Err(m1), ROut::Err(m2)) = (a, b) {
                    if m1 != m2 {
                        sink.obs("error-message-differs-between-runs", json!({"first": m1, "again": m2}));
                    }
                }
            }
            if again.outputs_json != first.outputs_json {
                sink.viol("twin-run-outputs-differ", "the outputs object differs between two runs", json!({"program": src, "first": first.outputs_json, "again": again.outputs_json}));
            }
        }
        // ---- (4) double evaluation and (5) let-abstraction on one binding statement
        let candidates: Vec<usize> = (0..stmts.len()).filter(|k| matches!(&stmts[*k], H::Assign(..))).collect();
        if !candidates.is_empty() {
            let k = candidates[r.below(candidates.len())];
            if let H::Assign(name, e) = &stmts[k] {
                let prefix = print_program(&stmts[..k], Mode::Min);
                let sess = Sess::new();
                let _ = sess.run(&prefix, false);
                let a = sess.rout(&sess.eval(&print_min(&assign(name, (**e).clone()))));
                let b = sess.rout(&sess.eval(&print_min(&assign(&format!("{}_twice", name), (**e).clone()))));
                sink.count("double_evaluations", 1);
                if !a.agrees(&b) {
                    sink.viol("double-evaluation-differs", "evaluating an expression twice gives different results", json!({"prefix": prefix, "expression": print_min(e), "first": a.show(), "second": b.show()}));
                }
                // let-abstraction
                let mut paths = Vec::new();
                strict_paths(e, &mut Vec::new(), &mut paths);
                paths.retain(|p| !matches!(get_at(e, p), H::Num(_) | H::Id(_) | H::Bool(_) | H::Null | H::BuiltIn(_) | H::Str(_) | H::InRef(_)));
                for _ in 0..3 {
                    if paths.is_empty() {
                        break;
                    }
                    let p = &paths[r.below(paths.len())];
                    let sub = get_at(e, p);
                    {
                        let s2 = Sess::new();
                        let _ = s2.run(&prefix, false);
                        let t = s2.rout(&s2.eval(&print_min(&assign("t_abs", sub.clone()))));
                        if matches!(t, ROut::Ok(_)) {
                            let replaced = replace_at(e, p, &id("t_abs"));
                            let r2 = s2.rout(&s2.eval(&print_min(&assign(name, replaced.clone()))));
                            sink.count("let_abstractions", 1);
                            if !a.agrees(&r2) {
                                sink.viol(
                                    &format!("let-abstraction-differs sub={}", sub.kind()),
                                    "binding a subexpression to a fresh name and using the name in its place changes the result",
                                    json!({"prefix": prefix, "expression": print_min(e), "subexpression": print_min(&sub), "abstracted": print_min(&replaced), "original_result": a.show(), "abstracted_result": r2.show()}),
                                );
                            }
                        } else {
                            sink.count("let_abstraction_discarded(subexpression fails alone)", 1);
                        }
                    }
                }
            }
        }
        // ---- (2) processes: same program, fresh processes (new hash seeds): stdout bytes and exit status identical
        if let Some(cli) = &cli {
            if i % (ctx.budget(40, 40)) == 0 {
                // only the statements that succeed, so that the CLI reaches the outputs
                let good: Vec<H> = stmts.iter().zip(first.per_stmt.iter()).filter(|(_, o)| matches!(o, ROut::Ok(_))).map(|(s, _)| s.clone()).collect();
                let mut prog = print_program(&good, Mode::Min);
                for (s, o) in stmts.iter().zip(first.per_stmt.iter()) {
                    if let (H::Assign(nm, _), ROut::Ok(v)) = (s, o) {
                        if !matches!(v, crate::rt::RVal::Fn { .. }) {
                            prog.push_str(&format!("\noutput {}", nm));
                        }
                    }
                }
                // what this (long-lived, already used) process computes for exactly that program text
                let inproc = run_once(&prog, &[], false).map(|r| r.outputs_json);
                let runs = ctx.budget(4, 16);
                let mut firsto: Option<(Option<i32>, Vec<u8>)> = None;
                for _ in 0..runs {
                    let path = format!("c02-{}-{}.blots", std::process::id(), i);
                    if std::fs::write(&path, &prog).is_err() {
                        break;
                    }
                    let out = std::process::Command::new(cli).arg(&path).stdin(std::process::Stdio::null()).output();
                    let _ = std::fs::remove_file(&path);
                    let Ok(out) = out else { break };
                    sink.count("cli_process_runs", 1);
                    let cur = (out.status.code(), out.stdout.clone());
                    match &firsto {
                        None => {
                            // a fresh process and a process that has evaluated hundreds of other programs agree
                            if let (Some(0), Some(inp)) = (cur.0, &inproc) {
                                let cli_text = String::from_utf8_lossy(&cur.1).trim_end().to_string();
                                if &cli_text != inp {
                                    sink.viol("fresh-process-differs-from-used-process", "a fresh CLI process and a long-lived process that evaluated other programs before give different outputs for the same program", json!({"program": prog, "fresh_process": cli_text, "used_process": inp}));
                                }
                            }
                            firsto = Some(cur)
                        }
                        Some(f) => {
                            if *f != cur {
                                sink.viol("process-runs-differ", "two processes running the same program print different outputs / exit differently", json!({"program": prog, "first": String::from_utf8_lossy(&f.1), "other": String::from_utf8_lossy(&cur.1)}));
                                break;
                            }
                        }
                    }
                }
                // and the CLI agrees with the in-process outputs of the same statements
            }
        }
    }
}
