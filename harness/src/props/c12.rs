//! C12 - equality and ordering are coherent.
//!
//! All pairs and triples of a pool dense in near-equal values; the six dot operators, u*, sort,
//! unique, includes. Oracle: the laws themselves (on the matrix of *observed* results) and the
//! independent `model::compare` / `sem_eq`.

use crate::gens;
use crate::model;
use crate::out::Sink;
use crate::rng::Rng;
use crate::rt::{Out, RVal, ROut, Sess, mk_value};
use crate::Ctx;
use serde_json::json;
use std::cmp::Ordering;

fn pool_sources() -> Vec<&'static str> {
    vec![
        // numbers (no NaN: excluded by the statement)
        "0", "-0", "1", "-1", "2", "0.5", "1e308", "-1e308", "5e-324", "inf", "-inf", "9007199254740992", "9007199254740993",
        "0.1 + 0.2", "0.3", "3",
        // strings
        "\"\"", "\"a\"", "\"ab\"", "\"abc\"", "\"abd\"", "\"b\"", "\"B\"", "\"é\"", "\"e\"", "\"z\"", "\"日本\"", "\"😀\"", "\"a\" + \"b\"",
        "\"10\"", "\"9\"", "\"\u{ff5e}\"", "\"\u{e000}x\"", "\"😀x\"", "\"\u{fffd}\"",
        // booleans, null
        "true", "false", "null", "1 == 1",
        // lists
        "[]", "[1]", "[1, 2]", "[1, 2, 0]", "[1, 3]", "[2]", "[1, 2, 3]", "[0, 9, 9]", "[[1, 2]]", "[[1, 2], [3]]", "[[1, 2], []]",
        "[[]]", "[\"a\"]", "[\"a\", \"b\"]", "[\"b\"]", "[1, \"a\"]", "[1, 5]", "[2, \"a\"]", "[null]", "[true]", "[false]", "[true, false]",
        "[-0]", "[0]", "[1] + [1]", "[{a: 1}]", "[{a: 2}]", "range(3)", "[0, 1, 2]",
        // records
        "{}", "{a: 1}", "{a: 1, b: 2}", "{b: 2, a: 1}", "{a: 1, b: 3}", "{a: 2}", "{b: 1}", "{a: [1, 2]}", "{a: {b: 1}}", "{a: {b: 1}, c: null}",
        "{c: null, a: {b: 1}}", "{\"a b\": 1}", "{a: null}", "{a: 0}", "{a: -0}",
        // same size, different key sets, null under the key the other one lacks
        "{k: 1, b: null}", "{k: 1, c: null}", "{k: 1, c: 2}", "{b: null}", "{c: null}", "[{b: null}]", "[{c: null}]",
    ]
}

struct M {
    n: usize,
    vals: Vec<RVal>,
    eq: Vec<Option<bool>>,
    lt: Vec<Option<bool>>,
    gt: Vec<Option<bool>>,
}

fn as_bool(o: &ROut) -> Option<bool> {
    match o {
        ROut::Ok(RVal::Bool(b)) => Some(*b),
        _ => None,
    }
}

pub fn run(ctx: &Ctx, sink: &mut Sink) {
    let sess = Sess::new();
    let mut srcs: Vec<String> = pool_sources().iter().map(|s| s.to_string()).collect();
    // seeded extra data values, injected directly
    let mut r = Rng::derive(ctx.seed, "c12-extra", 0);
    let n_extra = ctx.budget(60, 400) as usize;
    let mut names = Vec::new();
    let mut vals = Vec::new();
    for (i, s) in srcs.iter().enumerate() {
        let name = format!("v{}", i);
        match sess.eval(&format!("{} = {}", name, s)) {
            Out::Ok(v) => {
                vals.push(sess.rval(&v));
                names.push(name);
            }
            other => {
                sink.obs("pool-source-failed", json!({"src": s, "out": other.msg()}));
            }
        }
    }
    for k in 0..n_extra {
        let mut v = gens::random_data(&mut r, 3, true);
        // near-duplicates: half of the extras are small perturbations of an earlier pool value
        if k % 2 == 1 && !vals.is_empty() {
            v = perturb(&vals[r.below(vals.len())], &mut r);
        }
        if contains_nan(&v) {
            continue;
        }
        let name = format!("w{}", k);
        let val = mk_value(&sess.heap, &v);
        sess.bind(&name, val);
        srcs.push(v.show());
        names.push(name);
        vals.push(v);
    }
    let n = names.len();
    let mut m = M { n, vals: vals.clone(), eq: vec![None; n * n], lt: vec![None; n * n], gt: vec![None; n * n] };

    // ---- all ordered pairs, sharded by i
    for i in 0..n {
        for j in 0..n {
            let (a, b) = (&names[i], &names[j]);
            let ev = |op: &str| sess.rout(&sess.eval(&format!("{} {} {}", a, op, b)));
            let eq = ev(".==");
            let ne = ev(".!=");
            let lt = ev(".<");
            let le = ev(".<=");
            let gt = ev(".>");
            let ge = ev(".>=");
            m.eq[i * n + j] = as_bool(&eq);
            m.lt[i * n + j] = as_bool(&lt);
            m.gt[i * n + j] = as_bool(&gt);
            if !ctx.mine((i * n + j) as u64) {
                continue;
            }
            let mo = model::compare(&vals[i], &vals[j]);
            let meq = model::equal(&vals[i], &vals[j]);
            let nontrivial = mo.is_some() || meq;
            let key = format!("pair|{}|{}", vals[i].show(), vals[j].show());
            sink.case(&key, nontrivial);
            let case = json!({"a": srcs_or(&srcs, i), "b": srcs_or(&srcs, j), "a_val": vals[i].show(), "b_val": vals[j].show(),
                ".==": eq.show(), ".!=": ne.show(), ".<": lt.show(), ".<=": le.show(), ".>": gt.show(), ".>=": ge.show()});
            if sink.want_sample() && nontrivial && i != j {
                sink.sample(case.clone());
            }
            let mut bad = |sig: &str, what: &str| sink.viol(sig, what, case.clone());
            // equality is total on data values
            match (as_bool(&eq), as_bool(&ne)) {
                (Some(e), Some(ne_)) => {
                    if e == ne_ {
                        bad("dot-ne-not-negation", ".!= is not the negation of .==");
                    }
                    if e != meq {
                        bad(&format!("dot-eq-vs-model types={}/{}", kind(&vals[i]), kind(&vals[j])), ".== disagrees with structural equality ignoring key order");
                    }
                }
                _ => bad("dot-eq-not-boolean", ".== / .!= did not return a boolean on data values"),
            }
            match mo {
                Some(o) => {
                    let exp = |b: bool| Some(b);
                    if as_bool(&lt) != exp(o == Ordering::Less)
                        || as_bool(&gt) != exp(o == Ordering::Greater)
                        || as_bool(&le) != exp(o != Ordering::Greater)
                        || as_bool(&ge) != exp(o != Ordering::Less)
                    {
                        bad(&format!("ordering-vs-model types={}/{}", kind(&vals[i]), kind(&vals[j])), "ordering operators disagree with the lexicographic / numeric order");
                    }
                    let cnt = [as_bool(&lt), as_bool(&eq), as_bool(&gt)].iter().filter(|x| **x == Some(true)).count();
                    if cnt != 1 {
                        bad("trichotomy", "not exactly one of .<, .==, .> holds on comparable values");
                    }
                    if let (Some(l), Some(e), Some(le_)) = (as_bool(&lt), as_bool(&eq), as_bool(&le)) {
                        if le_ != (l || e) {
                            bad("le-not-union", ".<= is not the union of .< and .==");
                        }
                    }
                    if let (Some(g), Some(e), Some(ge_)) = (as_bool(&gt), as_bool(&eq), as_bool(&ge)) {
                        if ge_ != (g || e) {
                            bad("ge-not-union", ".>= is not the union of .> and .==");
                        }
                    }
                }
                None => {
                    if meq && as_bool(&eq) != Some(true) {
                        bad("eq-on-unordered", "equal unordered values not .==");
                    }
                    for (name, o) in [(".<", &lt), (".<=", &le), (".>", &gt), (".>=", &ge)] {
                        if !matches!(o, ROut::Err(_)) {
                            bad(&format!("unordered-no-error op={} types={}/{}", name, kind(&vals[i]), kind(&vals[j])), "ordering operator did not fail on values of different / unordered types");
                        }
                    }
                }
            }
            // unchecked built-ins
            for (f, o) in [("ugt", &gt), ("ult", &lt), ("ugte", &ge), ("ulte", &le)] {
                let u = sess.rout(&sess.eval(&format!("{}({}, {})", f, a, b)));
                let expect = match o {
                    ROut::Ok(v) => ROut::Ok(v.clone()),
                    _ => ROut::Ok(RVal::Bool(false)),
                };
                if !u.agrees(&expect) {
                    sink.viol(
                        &format!("unchecked-builtin f={}", f),
                        "u* built-in disagrees with its operator / is not false on incomparable values",
                        json!({"call": format!("{}({}, {})", f, srcs_or(&srcs, i), srcs_or(&srcs, j)), "got": u.show(), "operator": o.show()}),
                    );
                }
            }
            // plain == on non-lists never broadcasts: equals .==
            if !matches!(vals[i], RVal::List(_)) && !matches!(vals[j], RVal::List(_)) {
                let pe = sess.rout(&sess.eval(&format!("{} == {}", a, b)));
                if !pe.agrees(&eq) {
                    sink.viol("plain-eq-vs-dot-eq", "== on two non-lists differs from .==", json!({"a": srcs_or(&srcs, i), "b": srcs_or(&srcs, j), "==": pe.show(), ".==": eq.show()}));
                }
            }
            // includes
            let inc = sess.rout(&sess.eval(&format!("includes([{}, 12345], {})", a, b)));
            if as_bool(&inc) != as_bool(&eq) {
                sink.viol("includes-vs-dot-eq", "includes(list, x) disagrees with .==", json!({"a": srcs_or(&srcs, i), "b": srcs_or(&srcs, j), "includes": inc.show(), ".==": eq.show()}));
            }
        }
    }

    // ---- laws on the observed matrices: reflexive, symmetric, antisymmetric
    for i in 0..n {
        if m.eq[i * n + i] != Some(true) {
            sink.viol("eq-not-reflexive", ".== is not reflexive", json!({"a": srcs_or(&srcs, i)}));
        }
        for j in 0..n {
            if m.eq[i * n + j] != m.eq[j * n + i] {
                sink.viol("eq-not-symmetric", ".== is not symmetric", json!({"a": srcs_or(&srcs, i), "b": srcs_or(&srcs, j)}));
            }
            if m.lt[i * n + j].is_some() && m.lt[i * n + j] != m.gt[j * n + i] {
                sink.viol("lt-gt-not-converse", "a .< b differs from b .> a", json!({"a": srcs_or(&srcs, i), "b": srcs_or(&srcs, j)}));
            }
        }
    }
    // ---- triples (all in thorough, sampled in quick), sharded by i
    let total_triples = (n * n * n) as u64;
    let sample_every = if ctx.quick { (total_triples / 60_000).max(1) } else { 1 };
    let mut idx: u64 = 0;
    let mut triples_checked = 0u64;
    for i in 0..n {
        for j in 0..n {
            for k in 0..n {
                idx += 1;
                if idx % sample_every != 0 || !ctx.mine(idx / sample_every) {
                    continue;
                }
                triples_checked += 1;
                let (eij, ejk, eik) = (m.eq[i * n + j], m.eq[j * n + k], m.eq[i * n + k]);
                if eij == Some(true) && ejk == Some(true) && eik != Some(true) {
                    sink.viol("eq-not-transitive", ".== is not transitive", json!({"a": srcs_or(&srcs, i), "b": srcs_or(&srcs, j), "c": srcs_or(&srcs, k)}));
                }
                let (lij, ljk, lik) = (m.lt[i * n + j], m.lt[j * n + k], m.lt[i * n + k]);
                if lij == Some(true) && ljk == Some(true) && lik != Some(true) {
                    sink.viol("lt-not-transitive", ".< is not transitive", json!({"a": srcs_or(&srcs, i), "b": srcs_or(&srcs, j), "c": srcs_or(&srcs, k)}));
                }
                // equality is a congruence for the order
                if eij == Some(true) && ljk.is_some() && lik != ljk {
                    sink.viol("eq-not-congruent-with-lt", "a .== b but a .< c differs from b .< c", json!({"a": srcs_or(&srcs, i), "b": srcs_or(&srcs, j), "c": srcs_or(&srcs, k)}));
                }
            }
        }
    }
    sink.count("triples_checked", triples_checked);
    sink.count("pool_size", n as u64);

    // ---- sort / unique on mutually comparable sub-pools
    let groups: Vec<Vec<usize>> = vec![
        (0..n).filter(|i| matches!(m.vals[*i], RVal::Num(_))).collect(),
        (0..n).filter(|i| matches!(m.vals[*i], RVal::Str(_))).collect(),
        (0..n).filter(|i| matches!(&m.vals[*i], RVal::List(l) if l.iter().all(|x| matches!(x, RVal::Num(_))))).collect(),
        (0..n).collect(),
    ];
    let rounds = ctx.budget(2000, 400_000);
    for round in 0..rounds {
        if !ctx.mine(round) {
            continue;
        }
        let mut rr = Rng::derive(ctx.seed, "c12-sort", round);
        let gi = rr.below(groups.len());
        let g = &groups[gi];
        if g.is_empty() {
            continue;
        }
        let len = 1 + rr.below(40);
        let pick: Vec<usize> = (0..len).map(|_| g[rr.below(g.len())]).collect();
        let list_src = format!("[{}]", pick.iter().map(|i| names[*i].clone()).collect::<Vec<_>>().join(", "));
        let sorted = sess.rout(&sess.eval(&format!("sort({})", list_src)));
        let uniq = sess.rout(&sess.eval(&format!("unique({})", list_src)));
        sink.case(&format!("sort|{}|{:?}", gi, pick), true);
        let input: Vec<RVal> = pick.iter().map(|i| m.vals[*i].clone()).collect();
        let comparable = (0..input.len()).all(|a| (0..input.len()).all(|b| model::compare(&input[a], &input[b]).is_some()));
        match &sorted {
            ROut::Ok(RVal::List(out)) => {
                // permutation (multiset under bit-exact sameness)
                let mut rest = input.clone();
                let mut perm = out.len() == input.len();
                for o in out {
                    if let Some(p) = rest.iter().position(|x| x == o) {
                        rest.remove(p);
                    } else {
                        perm = false;
                    }
                }
                if !perm {
                    sink.viol("sort-not-permutation", "sort output is not a permutation of its input", json!({"list": input.iter().map(|x| x.show()).collect::<Vec<_>>(), "sorted": sorted.show()}));
                }
                if comparable {
                    for w in out.windows(2) {
                        if model::compare(&w[0], &w[1]) == Some(Ordering::Greater) {
                            sink.viol("sort-not-ordered", "sort output is not non-decreasing on mutually comparable elements", json!({"list": input.iter().map(|x| x.show()).collect::<Vec<_>>(), "sorted": sorted.show()}));
                            break;
                        }
                    }
                    // stability: among equal (Ordering::Equal but not bit-identical, e.g. 0 / -0) keep input order
                    let mut exp = input.clone();
                    exp.sort_by(|a, b| model::compare(a, b).unwrap());
                    if &exp != out {
                        sink.viol("sort-not-stable", "sort is not the stable sort of its input", json!({"list": input.iter().map(|x| x.show()).collect::<Vec<_>>(), "sorted": sorted.show()}));
                    }
                }
            }
            ROut::Panic(p) => sink.viol_for("C01", "builtin=sort panic", "sort panicked", json!({"list": input.iter().map(|x| x.show()).collect::<Vec<_>>(), "panic": p})),
            _ => sink.viol("sort-failed", "sort did not return a list", json!({"list": list_src, "out": sorted.show()})),
        }
        // unique keeps the first of each .== class, in order
        let mut exp: Vec<RVal> = Vec::new();
        for v in &input {
            if !exp.iter().any(|e| model::equal(e, v)) {
                exp.push(v.clone());
            }
        }
        if !uniq.agrees(&ROut::Ok(RVal::List(exp.clone()))) {
            sink.viol("unique-not-first-of-class", "unique does not keep the first member of each .== class in order", json!({"list": input.iter().map(|x| x.show()).collect::<Vec<_>>(), "unique": uniq.show(), "expected": RVal::List(exp).show()}));
        }
    }
}

fn srcs_or(srcs: &[String], i: usize) -> String {
    srcs.get(i).cloned().unwrap_or_default()
}

fn kind(v: &RVal) -> &'static str {
    match v {
        RVal::Num(_) => "number",
        RVal::Str(_) => "string",
        RVal::Bool(_) => "bool",
        RVal::Null => "null",
        RVal::List(_) => "list",
        RVal::Rec(_) => "record",
        _ => "other",
    }
}

fn contains_nan(v: &RVal) -> bool {
    match v {
        RVal::Num(b) => f64::from_bits(*b).is_nan(),
        RVal::List(l) => l.iter().any(contains_nan),
        RVal::Rec(r) => r.iter().any(|(_, v)| contains_nan(v)),
        _ => false,
    }
}

/// a value that differs from `v` in one small way (or is a permuted / re-built equal copy)
fn perturb(v: &RVal, r: &mut Rng) -> RVal {
    match v {
        RVal::Num(b) => {
            let x = f64::from_bits(*b);
            match r.below(3) {
                0 => RVal::num(f64::from_bits(b.wrapping_add(1))),
                1 => RVal::num(-x),
                _ => RVal::num(x),
            }
        }
        RVal::Str(s) => match r.below(3) {
            0 => RVal::Str(format!("{}a", s)),
            1 => RVal::Str(s.chars().skip(1).collect()),
            _ => RVal::Str(s.clone()),
        },
        RVal::List(l) => {
            let mut l = l.clone();
            match r.below(4) {
                0 => l.push(RVal::num(0.0)),
                1 => {
                    l.pop();
                }
                2 if !l.is_empty() => {
                    let i = r.below(l.len());
                    l[i] = perturb(&l[i], r);
                }
                _ => {}
            }
            RVal::List(l)
        }
        RVal::Rec(es) => {
            let mut es = es.clone();
            match r.below(3) {
                0 => es.reverse(),
                1 if !es.is_empty() => {
                    let i = r.below(es.len());
                    es[i].1 = perturb(&es[i].1, r);
                }
                _ => {}
            }
            RVal::Rec(es)
        }
        other => other.clone(),
    }
}
