//! C11 - scalar operator semantics and the broadcasting law.

use crate::Ctx;
use crate::gens;
use crate::model::{self, MOut};
use crate::out::Sink;
use crate::rng::Rng;
use crate::rt::{RVal, ROut, Sess, mk_value};
use serde_json::json;

const OPS: [&str; 23] = [
    "+", "-", "*", "/", "%", "^", "==", "!=", "<", "<=", ">", ">=", ".==", ".!=", ".<", ".<=", ".>", ".>=", "&&", "and", "||", "or", "??",
];
/// the 17 broadcasting operators
const BOPS: [&str; 17] = ["+", "-", "*", "/", "%", "^", "==", "!=", "<", "<=", ">", ">=", "&&", "and", "||", "or", "??"];

fn scalar_pool() -> Vec<RVal> {
    let mut v: Vec<RVal> = [
        0.0, -0.0, 1.0, -1.0, 2.0, 3.0, 0.5, -2.5, 0.1, 0.2, 1e308, -1e308, 5e-324, 9007199254740993.0, f64::INFINITY, f64::NEG_INFINITY, f64::NAN, 7.0,
        -7.0, 1e-7,
    ]
    .iter()
    .map(|x| RVal::num(*x))
    .collect();
    for s in ["", "a", "b", "ab", "é", "10", "9", "B", "\u{ff5e}", "😀", "\u{e000}", "\u{ffff}"] {
        v.push(RVal::Str(s.to_string()));
    }
    v.push(RVal::Bool(true));
    v.push(RVal::Bool(false));
    v.push(RVal::Null);
    v
}

fn kind(v: &RVal) -> &'static str {
    match v {
        RVal::Num(b) => {
            if f64::from_bits(*b).is_nan() { "NaN" } else { "number" }
        }
        RVal::Str(_) => "string",
        RVal::Bool(_) => "bool",
        RVal::Null => "null",
        RVal::List(_) => "list",
        RVal::Rec(_) => "record",
        _ => "other",
    }
}

fn is_andor(op: &str) -> bool {
    matches!(op, "&&" | "and" | "||" | "or")
}

fn part_scalar(ctx: &Ctx, sink: &mut Sink) {
    let sess = Sess::new();
    let pool = scalar_pool();
    for (i, v) in pool.iter().enumerate() {
        let val = mk_value(&sess.heap, v);
        sess.bind(&format!("s{}", i), val);
    }
    let mut idx = 0u64;
    for (i, a) in pool.iter().enumerate() {
        for (j, b) in pool.iter().enumerate() {
            for op in OPS.iter() {
                idx += 1;
                if !ctx.mine(idx) {
                    continue;
                }
                let src = format!("s{} {} s{}", i, op, j);
                let got = sess.rout(&sess.eval(&src));
                let exp = model::scalar_op(op, a, b);
                let nontrivial = matches!(exp, MOut::Val(_));
                sink.case(&format!("scalar|{}|{}|{}", a.show(), op, b.show()), nontrivial);
                if sink.want_sample() && nontrivial && i != j && idx % 97 == 0 {
                    sink.sample(json!({"part": "scalar", "expr": format!("{} {} {}", a.show(), op, b.show()), "result": got.show()}));
                }
                let ok = match (&exp, &got) {
                    (MOut::NoClaim, _) => true,
                    (MOut::Val(e), ROut::Ok(g)) => e == g,
                    (MOut::Fail, ROut::Err(_)) => true,
                    _ => false,
                };
                if !ok {
                    let sig = if is_andor(op) && matches!(a, RVal::Bool(_)) && !matches!(b, RVal::Bool(_)) && matches!(got, ROut::Ok(_)) {
                        "and-or right operand not type-checked (scalar)".to_string()
                    } else {
                        format!("scalar-model op={} types={}/{}", op, kind(a), kind(b))
                    };
                    sink.viol(&sig, "scalar operator result differs from the documented semantics", json!({"expr": format!("{} {} {}", a.show(), op, b.show()), "got": got.show(), "expected": format!("{:?}", exp)}));
                }
            }
        }
    }
}

/// the operator's non-broadcasting meaning on one element pair
fn elem_op(sess: &Sess, op: &str, a: &RVal, b: &RVal) -> ROut {
    let a_list = matches!(a, RVal::List(_));
    let b_list = matches!(b, RVal::List(_));
    if !a_list && !b_list {
        // model-free: the real evaluator on two scalars
        let va = mk_value(&sess.heap, a);
        let vb = mk_value(&sess.heap, b);
        sess.bind("ea", va);
        sess.bind("eb", vb);
        return sess.rout(&sess.eval(&format!("ea {} eb", op)));
    }
    match op {
        "==" | "!=" | "<" | "<=" | ">" | ">=" => {
            let va = mk_value(&sess.heap, a);
            let vb = mk_value(&sess.heap, b);
            sess.bind("ea", va);
            sess.bind("eb", vb);
            sess.rout(&sess.eval(&format!("ea .{} eb", op)))
        }
        "??" => ROut::Ok(if matches!(a, RVal::Null) { b.clone() } else { a.clone() }),
        _ => ROut::Err("a list is not a number / boolean".into()),
    }
}

fn elem_pool(r: &mut Rng) -> RVal {
    match r.below(12) {
        0..=4 => RVal::num(*r.pick(&[0.0, -0.0, 1.0, 2.0, -3.0, 0.5, 0.1, 1e308, f64::INFINITY, f64::NEG_INFINITY, f64::NAN, 7.0, 2.0, 3.0])),
        5 | 6 => RVal::Str(r.pick(&["", "a", "b", "ab", "é", "\u{ff5e}", "😀", "\u{e000}", "B"]).to_string()),
        7 | 8 => RVal::Bool(r.chance(1, 2)),
        9 => RVal::Null,
        10 => RVal::List((0..r.below(3)).map(|_| RVal::num(r.below(4) as f64)).collect()),
        _ => RVal::num(r.range(-5, 5) as f64),
    }
}

/// homogeneous pools make successful broadcasts likely
fn typed_list(r: &mut Rng, op: &str, len: usize) -> Vec<RVal> {
    let mode = r.below(5);
    (0..len)
        .map(|_| match (mode, op) {
            (0 | 1, "&&" | "and" | "||" | "or") => RVal::Bool(r.chance(1, 2)),
            (0 | 1, "??") => {
                if r.chance(1, 2) { RVal::Null } else { RVal::num(r.below(5) as f64) }
            }
            (0 | 1, _) => RVal::num(*r.pick(&[0.0, -0.0, 1.0, 2.0, -3.0, 0.5, 0.1, 1e308, f64::INFINITY, 7.0, 2.0])),
            (2, "+" | "==" | "!=" | "<" | "<=" | ">" | ">=") => RVal::Str(r.pick(&["", "a", "b", "ab", "B", "\u{ff5e}", "😀", "\u{fffd}z", "😀z"]).to_string()),
            _ => elem_pool(r),
        })
        .collect()
}

fn part_broadcast(ctx: &Ctx, sink: &mut Sink) {
    let n = ctx.budget(120_000, 40_000_000);
    let sess = Sess::new();
    for i in 0..n {
        if !ctx.mine(i) {
            continue;
        }
        let mut r = Rng::derive(ctx.seed, "c11-bc", i);
        let op = BOPS[(i as usize / ctx.shard_n as usize) % BOPS.len()];
        let shape = r.below(3); // 0 list-scalar, 1 scalar-list, 2 list-list
        let la = r.below(9);
        let lb = if shape == 2 && r.chance(1, 6) { r.below(9) } else { la };
        let l = typed_list(&mut r, op, la);
        let m = typed_list(&mut r, op, lb);
        let s = {
            let x = typed_list(&mut r, op, 1);
            x.into_iter().next().unwrap()
        };
        let s = if matches!(s, RVal::List(_)) { RVal::num(1.0) } else { s };
        let vl = mk_value(&sess.heap, &RVal::List(l.clone()));
        let vm = mk_value(&sess.heap, &RVal::List(m.clone()));
        let vs = mk_value(&sess.heap, &s);
        sess.bind("L", vl);
        sess.bind("M", vm);
        sess.bind("S", vs);
        let (src, pairs, len_mismatch): (String, Vec<(RVal, RVal)>, bool) = match shape {
            0 => (format!("L {} S", op), l.iter().map(|x| (x.clone(), s.clone())).collect(), false),
            1 => (format!("S {} L", op), l.iter().map(|x| (s.clone(), x.clone())).collect(), false),
            _ => (format!("L {} M", op), l.iter().cloned().zip(m.iter().cloned()).collect(), l.len() != m.len()),
        };
        let got = sess.rout(&sess.eval(&src));
        // expected: element by element, in order
        let mut exp_items = Vec::new();
        let mut exp_fail = len_mismatch;
        if !exp_fail {
            for (a, b) in &pairs {
                match elem_op(&sess, op, a, b) {
                    ROut::Ok(v) => exp_items.push(v),
                    _ => {
                        exp_fail = true;
                        break;
                    }
                }
            }
        }
        let key = format!("bc|{}|{}|{}|{}|{}", op, shape, RVal::List(l.clone()).show(), RVal::List(m.clone()).show(), s.show());
        sink.case(&key, !exp_fail && !pairs.is_empty());
        let shape_name = ["list-scalar", "scalar-list", "list-list"][shape];
        let case = json!({"part": "broadcast", "op": op, "shape": shape_name, "L": RVal::List(l.clone()).show(), "M": RVal::List(m.clone()).show(), "S": s.show(), "source": src, "got": got.show()});
        if sink.want_sample() && !exp_fail && pairs.len() > 2 {
            sink.sample(case.clone());
        }
        let ok = if exp_fail { !matches!(got, ROut::Ok(_)) } else { got == ROut::Ok(RVal::List(exp_items.clone())) };
        if !ok {
            // classify the known and/or root cause: the only failing element operations are
            // bool <and/or> non-bool pairs that the scalar evaluator accepts
            let sig = if exp_fail {
                format!("broadcast accepts-failing-elements op-class={} shape={}", op_class(op), shape_name)
            } else {
                format!("broadcast wrong-result op-class={} shape={}", op_class(op), shape_name)
            };
            let mut c = case.clone();
            c["expected"] = json!(if exp_fail { "failure".to_string() } else { RVal::List(exp_items).show() });
            sink.viol(&sig, "broadcast result is not the list of element results / does not fail exactly when an element fails or lengths differ", c);
        }
    }
    // dot comparisons never broadcast: one boolean equal to the C12 relation
    let n2 = ctx.budget(15_000, 4_000_000);
    for i in 0..n2 {
        if !ctx.mine(i) {
            continue;
        }
        let mut r = Rng::derive(ctx.seed, "c11-dot", i);
        let la = r.below(5);
        let lb = if r.chance(1, 3) { r.below(5) } else { la };
        let l: Vec<RVal> = (0..la).map(|_| RVal::num(r.below(3) as f64)).collect();
        let m: Vec<RVal> = (0..lb).map(|_| RVal::num(r.below(3) as f64)).collect();
        let (a, b) = match r.below(3) {
            0 => (RVal::List(l), RVal::List(m)),
            1 => (RVal::List(l), RVal::num(1.0)),
            _ => (RVal::num(1.0), RVal::List(m)),
        };
        let va = mk_value(&sess.heap, &a);
        let vb = mk_value(&sess.heap, &b);
        sess.bind("da", va);
        sess.bind("db", vb);
        for op in [".==", ".!=", ".<", ".<=", ".>", ".>="] {
            let got = sess.rout(&sess.eval(&format!("da {} db", op)));
            let exp = model::scalar_op(op, &a, &b);
            sink.case(&format!("dot|{}|{}|{}", a.show(), op, b.show()), matches!(exp, MOut::Val(_)));
            let ok = match (&exp, &got) {
                (MOut::Val(e), ROut::Ok(g)) => e == g,
                (MOut::Fail, ROut::Err(_)) => true,
                (MOut::NoClaim, _) => true,
                _ => false,
            };
            if !ok {
                sink.viol(&format!("dot-operator-broadcasts-or-wrong op={}", op), "a dot comparison on lists is not one boolean equal to the value relation", json!({"a": a.show(), "b": b.show(), "op": op, "got": got.show(), "expected": format!("{:?}", exp)}));
            }
        }
    }
    let _ = gens::boundary_numbers;
}

fn op_class(op: &str) -> &'static str {
    match op {
        "+" | "-" | "*" | "/" | "%" | "^" => "arithmetic",
        "==" | "!=" | "<" | "<=" | ">" | ">=" => "comparison",
        "??" => "coalesce",
        _ => "logic",
    }
}

/// values, not identities: an operator applied to the *same* heap cell on both sides (one binding used
/// twice, directly or as elements of both operand lists) gives what it gives on two separate, equal copies
fn alias_value(r: &mut Rng, depth: u32) -> RVal {
    match r.below(if depth == 0 { 12 } else { 9 }) {
        0 => RVal::num(*r.pick(&[0.0, -0.0, 1.0, 2.0, -3.0, 0.5, f64::INFINITY, f64::NAN])),
        1 => RVal::num(f64::NAN),
        2 => RVal::Null,
        3 => RVal::Str(r.pick(&["", "a", "ab", "é"]).to_string()),
        4 => RVal::Bool(r.chance(1, 2)),
        5 => RVal::num(r.below(4) as f64),
        6 => RVal::Rec(vec![("k".to_string(), RVal::num(r.below(3) as f64))]),
        7 => RVal::List(vec![]),
        8 => RVal::List(vec![RVal::num(1.0), RVal::num(r.below(3) as f64)]),
        _ => RVal::List((0..1 + r.below(3)).map(|_| alias_value(r, depth + 1)).collect()),
    }
}

/// identical results: numbers bit for bit, except that every NaN is the same NaN
fn same_result(a: &RVal, b: &RVal) -> bool {
    match (a, b) {
        (RVal::Num(x), RVal::Num(y)) => x == y || (f64::from_bits(*x).is_nan() && f64::from_bits(*y).is_nan()),
        (RVal::List(x), RVal::List(y)) => x.len() == y.len() && x.iter().zip(y).all(|(p, q)| same_result(p, q)),
        (RVal::Rec(x), RVal::Rec(y)) => x.len() == y.len() && x.iter().zip(y).all(|((k, p), (l, q))| k == l && same_result(p, q)),
        _ => a == b,
    }
}

fn part_alias(ctx: &Ctx, sink: &mut Sink) {
    let n = ctx.budget(40_000, 12_000_000);
    let sess = Sess::new();
    let all_ops: Vec<&str> = OPS.iter().copied().collect();
    for i in 0..n {
        if !ctx.mine(i) {
            continue;
        }
        let mut r = Rng::derive(ctx.seed, "c11-alias", i);
        let op = all_ops[(i as usize / ctx.shard_n as usize) % all_ops.len()];
        let x = alias_value(&mut r, 0);
        let other = alias_value(&mut r, 1);
        sess.bind("X", mk_value(&sess.heap, &x));
        sess.bind("Xa", mk_value(&sess.heap, &x));
        sess.bind("Xb", mk_value(&sess.heap, &x));
        sess.bind("Y", mk_value(&sess.heap, &other));
        let forms: [(&str, &str); 4] = [("X {} X", "Xa {} Xb"), ("[X, Y] {} [X, Y]", "[Xa, Y] {} [Xb, Y]"), ("[Y, X] {} [Y, X]", "[Y, Xa] {} [Y, Xb]"), ("[[X]] {} [[X]]", "[[Xa]] {} [[Xb]]")];
        let (fa, fb) = forms[r.below(4) as usize];
        let aliased = fa.replace("{}", op);
        let separate = fb.replace("{}", op);
        let got_alias = sess.rout(&sess.eval(&aliased));
        let got_sep = sess.rout(&sess.eval(&separate));
        let key = format!("alias|{}|{}|{}|{}", op, fa, x.show(), other.show());
        sink.case(&key, matches!(x, RVal::List(_) | RVal::Rec(_) | RVal::Str(_)));
        let same = match (&got_alias, &got_sep) {
            (ROut::Ok(a), ROut::Ok(b)) => same_result(a, b),
            (ROut::Err(_), ROut::Err(_)) => true,
            _ => false,
        };
        if !same {
            sink.viol(
                &format!("aliasing-changes-result op-class={}", if op.starts_with('.') { "dot-comparison" } else { op_class(op) }),
                "an operator gives a different result when both operands are (or contain) the same heap cell than on two equal copies",
                json!({"part": "alias", "op": op, "X": x.show(), "Y": other.show(), "aliased": aliased, "aliased_result": got_alias.show(), "separate": separate, "separate_result": got_sep.show()}),
            );
        }
    }
}

pub fn run(ctx: &Ctx, sink: &mut Sink) {
    part_scalar(ctx, sink);
    part_broadcast(ctx, sink);
    part_alias(ctx, sink);
}
