use crate::Ctx;
use crate::out::Sink;

pub mod c01;
pub mod c02;
pub mod c03;
pub mod c04;
pub mod c05;
pub mod c10;
pub mod fmt;
pub mod logs;
pub mod c11;
pub mod c12;
pub mod c13;
pub mod c14;
pub mod c17;

pub fn dispatch(prop: &str, ctx: &Ctx, sink: &mut Sink) -> bool {
    match prop {
        "C01" => c01::run(ctx, sink),
        "C02" => c02::run(ctx, sink),
        "C03" => c03::run(ctx, sink),
        "C04" => c04::run(ctx, sink),
        "C05" => c05::run(ctx, sink),
        "C06" => logs::run_c06(ctx, sink),
        "C15" => logs::run_c15(ctx, sink),
        "C16" => logs::run_c16(ctx, sink),
        "C20" => logs::run_c20(ctx, sink),
        "C07" | "C08" | "C09" => fmt::run(prop, ctx, sink),
        "C10" => c10::run(ctx, sink),
        "C11" => c11::run(ctx, sink),
        "C12" => c12::run(ctx, sink),
        "C13" => c13::run(ctx, sink),
        "C14" => c14::run(ctx, sink),
        "C17" => c17::run(ctx, sink),
        _ => return false,
    }
    true
}
