use crate::Ctx;
use crate::out::Sink;

pub mod c12;

pub fn dispatch(prop: &str, ctx: &Ctx, sink: &mut Sink) -> bool {
    match prop {
        "C12" => c12::run(ctx, sink),
        _ => return false,
    }
    true
}
