//! C05 - function outputs are portable: emitted source reloads to an equivalent function.

use crate::Ctx;
use crate::gens::{self, Gen, GenCfg, PoolItem, Ty};
use crate::hexpr::*;
use crate::out::Sink;
use crate::rng::Rng;
use crate::rt::{Out, RVal, ROut, Sess, guard, mk_value};
use crate::shapes;
use blots_core::expressions::validate_portable_value;
use blots_core::values::{SerializableValue, Value};
use serde_json::json;

const ARG_POOL: [&str; 22] = [
    "2", "3", "0.5", "(-2)", "7", "150", "0.1", "0", "true", "false", "null", "\"s\"", "\"\"", "[1, 2]", "[true, false]", "[]", "{k: 1}", "{k: [1, 2]}",
    "(q => q + 1)", "((q, w) => q)", "abs", "[[1], [2]]",
];

/// emit through the real output path and reload through the real input path into `dst`
fn emit_reload(src_sess: &Sess, f: &Value, dst: &Sess) -> Result<(String, Value), String> {
    let text = {
        let heap = src_sess.heap.borrow();
        let sv = guard(|| SerializableValue::from_value(f, &heap)).map_err(|p| format!("PANIC in from_value: {}", p))?.map_err(|e| format!("from_value: {}", e))?;
        serde_json::to_string(&sv.to_json()).map_err(|e| e.to_string())?
    };
    let jv: serde_json::Value = serde_json::from_str(&text).map_err(|e| format!("emitted JSON invalid: {}", e))?;
    let sv = guard(|| SerializableValue::from_json(&jv)).map_err(|p| format!("PANIC in from_json: {}", p))?;
    match &sv {
        SerializableValue::Lambda(_) | SerializableValue::BuiltIn(_) => {}
        _ => return Err(format!("NOT-A-FUNCTION: emitted source does not parse as a function: {}", text)),
    }
    let v = guard(|| sv.to_value(&mut dst.heap.borrow_mut())).map_err(|p| format!("PANIC in to_value: {}", p))?.map_err(|e| format!("to_value: {}", e))?;
    Ok((text, v))
}

/// values agree: numbers bit for bit except that every NaN is the same NaN (payload and sign are
/// invisible in the language); functions inside results are compared by parameter list only (the
/// reloaded one has its captures inlined)
fn value_agrees(a: &RVal, b: &RVal) -> bool {
    match (a, b) {
        (RVal::Num(x), RVal::Num(y)) => x == y || (f64::from_bits(*x).is_nan() && f64::from_bits(*y).is_nan()),
        (RVal::Fn { args: a1, .. }, RVal::Fn { args: a2, .. }) => a1 == a2,
        (RVal::List(x), RVal::List(y)) => x.len() == y.len() && x.iter().zip(y).all(|(p, q)| value_agrees(p, q)),
        (RVal::Rec(x), RVal::Rec(y)) => x.len() == y.len() && x.iter().zip(y).all(|((k1, p), (k2, q))| k1 == k2 && value_agrees(p, q)),
        (p, q) => p == q,
    }
}

fn result_agrees(a: &ROut, b: &ROut) -> bool {
    match (a, b) {
        (ROut::Ok(x), ROut::Ok(y)) => value_agrees(x, y),
        _ => a.agrees(b),
    }
}

struct Verdict {
    any_ok: bool,
    witness: Option<(String, String, String)>,
}

/// compare `f` in session a with `f` in session b on argument tuples
fn compare(a: &Sess, b: &Sess, arity_hint: usize, r: &mut Rng, tuples: usize, fixed: &[Vec<&str>]) -> Verdict {
    let mut any_ok = false;
    let mut tried = 0;
    let small_numbers_only = matches!(a.env.get("f").map(|v| a.rval(&v)), Some(RVal::Fn { body, .. }) if body.contains('!'));
    let mut run = |args: Vec<String>| -> Option<(String, String, String)> {
        let call = format!("f({})", args.join(", "));
        let ra = a.rout(&a.eval(&call));
        let rb = b.rout(&b.eval(&call));
        if matches!(ra, ROut::Ok(_)) {
            any_ok = true;
        }
        if !result_agrees(&ra, &rb) {
            return Some((call, ra.show(), rb.show()));
        }
        None
    };
    for t in fixed {
        tried += 1;
        if let Some(w) = run(t.iter().map(|s| s.to_string()).collect()) {
            return Verdict { any_ok, witness: Some(w) };
        }
    }
    while tried < tuples {
        tried += 1;
        let n = match r.below(6) {
            0 => arity_hint.saturating_sub(1),
            1 => arity_hint + 1,
            _ => arity_hint,
        };
        let args: Vec<String> = (0..n)
            .map(|_| {
                let a = r.pick(&ARG_POOL).to_string();
                // a factorial over a power tower of 3 / 7 / 150 is an hours-long loop (a legitimate computation, not an
                // equivalence question): functions whose body has a `!` get small numbers only
                if small_numbers_only && ["3", "7", "150"].contains(&a.as_str()) { "2".to_string() } else { a }
            })
            .collect();
        if let Some(w) = run(args) {
            return Verdict { any_ok, witness: Some(w) };
        }
    }
    Verdict { any_ok, witness: None }
}

fn check_function(sink: &mut Sink, a: &Sess, def_desc: &serde_json::Value, sig_hint: &str, arity: usize, r: &mut Rng, tuples: usize, fixed: &[Vec<&str>], key: &str) {
    let Some(f) = a.env.get("f") else {
        sink.case(key, false);
        return;
    };
    if !matches!(f, Value::Lambda(_)) {
        sink.case(key, false);
        return;
    }
    // closed after capture: the validator must accept it (the generator only builds closed functions)
    let portable = { validate_portable_value(&f, &a.heap.borrow(), &a.env) };
    if let Err(e) = &portable {
        sink.viol(&format!("validator-rejects-closed-function {}", sig_hint), "validate_portable_value rejects a function whose free names are all parameters, captured values or built-ins", json!({"definition": def_desc, "error": e.to_string()}));
    }
    let b = Sess::new();
    let (text, v) = match emit_reload(a, &f, &b) {
        Ok(x) => x,
        Err(e) => {
            let cls = if e.starts_with("NOT-A-FUNCTION") { "emitted-source-not-a-function" } else if e.starts_with("PANIC") { "emit-reload-panic" } else { "emitted-source-unloadable" };
            sink.case(key, true);
            sink.viol(&format!("{} {}", cls, sig_hint), "the emitted __blots_function source cannot be loaded back as a function", json!({"definition": def_desc, "error": e.chars().take(500).collect::<String>()}));
            return;
        }
    };
    b.bind("f", v);
    let verdict = compare(a, &b, arity, r, tuples, fixed);
    sink.case(key, verdict.any_ok);
    if sink.want_sample() && verdict.any_ok && text.len() < 300 {
        sink.sample(json!({"definition": def_desc, "emitted": text}));
    }
    if let Some((call, ra, rb)) = verdict.witness {
        sink.viol(&format!("reloaded-differs {}", sig_hint), "the reloaded function returns a different result (or fails differently) than the original", json!({"definition": def_desc, "emitted": text, "call": call, "original": ra, "reloaded": rb}));
        return;
    }
    // second generation: emit the reloaded function again
    let c = Sess::new();
    match emit_reload(&b, &v, &c) {
        Ok((text2, v2)) => {
            c.bind("f", v2);
            let verdict2 = compare(a, &c, arity, r, tuples / 2 + 1, fixed);
            if let Some((call, ra, rc)) = verdict2.witness {
                sink.viol(&format!("second-generation-differs {}", sig_hint), "emitting a reloaded function again yields a function that behaves differently", json!({"definition": def_desc, "first_emission": text, "second_emission": text2, "call": call, "original": ra, "second_generation": rc}));
            }
        }
        Err(e) => sink.viol(&format!("second-generation-unloadable {}", sig_hint), "a reloaded function cannot be emitted and loaded again", json!({"definition": def_desc, "first_emission": text, "error": e.chars().take(400).collect::<String>()})),
    }
}

fn part_shapes(ctx: &Ctx, sink: &mut Sink) {
    let tuples = ctx.budget(14, 40) as usize;
    let fixed: Vec<Vec<&str>> = vec![
        vec!["2", "3", "7", "0.5", "(q => q + 1)", "4", "9"],
        vec!["true", "false", "true", "false", "(q => !q)", "true", "false"],
        vec!["[1, 2]", "0", "[3, 4]", "1", "(q => q)", "0", "[5]"],
        vec!["0.1", "0.2", "0.3", "100", "abs", "0.7", "3"],
        vec!["{k: 1}", "\"k\"", "{k: 2}", "null", "(q => q.k)", "\"k\"", "{k: 3}"],
        vec!["(-2)", "3", "2", "2", "(q => q * 2)", "2", "(-1)"],
        vec!["null", "1", "null", "2", "(q => q ?? 5)", "null", "3"],
        vec!["(q => q + 1)", "1", "(q => q * 3)", "2", "(q => q)", "(q => q - 1)", "5"],
        vec!["5", "0", "1", "true", "(q => [q])", "false", "1"],
        vec!["[1, 2]", "1", "2", "3", "(q => q + 1)", "(q => q * 2)", "true"],
    ];
    let mut all = shapes::two_level();
    all.extend(shapes::wrapped_two_level());
    for (i, sh) in all.iter().enumerate() {
        if !ctx.mine(i as u64) {
            continue;
        }
        let mut r = Rng::derive(ctx.seed, "c05-shape", i as u64);
        let body = print_full(&sh.tree);
        // parenthesised: a lambda body does not admit a bare via / into / where chain
        let def = format!("f = (a, b, c, d, f, e, g) => ({})", body);
        let a = Sess::new();
        if !a.eval(&def).is_ok() {
            sink.count("shape-definition-not-admitted", 1);
            continue;
        }
        check_function(sink, &a, &json!(def), &format!("printer ctx={} child={}", sh.ctx, sh.child), 7, &mut r, tuples, &fixed, &format!("shape|{}", def));
    }
}

fn captured_pool() -> Vec<(&'static str, PoolItem)> {
    use PoolItem::*;
    let s = |x: &str| Direct(RVal::Str(x.to_string()));
    let n = |x: f64| Direct(RVal::num(x));
    vec![
        // closures whose own body has a bare via / into / where after a string literal holding the other kind of quote
        ("closure-via-after-single-quote-in-double", Src("(s => (split(s, \"'\") via uppercase))")),
        ("closure-where-after-double-quote-in-single", Src("(l => ([...l] where (c => c != '\"')))")),
        ("closure-into-after-apostrophe", Src("(s => ((s + \"it's\") into uppercase))")),
        ("string-plain", s("plain")),
        ("string-double-quote", s("say \"hi\"")),
        ("string-single-quote", s("it's")),
        ("string-both-quotes", s("both ' and \"")),
        ("string-backslash", s("back\\slash")),
        ("string-backslash-quote", s("\\\"")),
        ("string-newline", s("line\nbreak")),
        ("string-non-ascii", s("é日本😀")),
        ("string-looks-like-code", s("x => x // not code")),
        ("string-empty", s("")),
        ("number-negative", n(-3.0)),
        ("number-negative-fraction", n(-0.5)),
        ("number-negative-zero", n(-0.0)),
        ("number-infinity", n(f64::INFINITY)),
        ("number-neg-infinity", n(f64::NEG_INFINITY)),
        ("number-nan", n(f64::NAN)),
        ("number-nan-sign-bit-set", n(f64::from_bits(0xfff8_0000_0000_0000))),
        ("number-nan-payload", n(f64::from_bits(0x7ff8_0000_0000_0001))),
        ("number-1e21", n(1e21)),
        ("number-tiny", n(5e-324)),
        ("number-fraction", n(0.1)),
        ("number-2^53+2", n(9007199254740994.0)),
        ("bool", Direct(RVal::Bool(true))),
        ("null", Direct(RVal::Null)),
        ("list-nested", Direct(RVal::List(vec![RVal::List(vec![RVal::num(1.0), RVal::num(-2.0)]), RVal::Str("q\"q".into()), RVal::Null]))),
        ("list-empty", Direct(RVal::List(vec![]))),
        ("record-plain-keys", Direct(RVal::Rec(vec![("a".into(), RVal::num(1.0)), ("b".into(), RVal::List(vec![RVal::num(2.0)]))]))),
        ("record-keys-needing-quotes", Direct(RVal::Rec(vec![("two words".into(), RVal::num(1.0)), ("0start".into(), RVal::num(2.0)), ("if".into(), RVal::num(3.0)), ("".into(), RVal::num(4.0)), ("é".into(), RVal::num(5.0))]))),
        ("record-key-with-quote", Direct(RVal::Rec(vec![("q\"k".into(), RVal::num(1.0)), ("back\\".into(), RVal::num(2.0))]))),
        ("record-empty", Direct(RVal::Rec(vec![]))),
        ("closure", Src("y => y * 3")),
        ("closure-arity2", Src("(y, z?) => [y, z]")),
        ("closure-capturing", Src("do {\n  inner = 10\n  return y => y + inner\n}")),
        ("closure-two-levels", Src("do {\n  i1 = 2\n  g1 = y => y * i1\n  return y => g1(y) + i1\n}")),
        ("closure-with-negative-capture", Src("do {\n  neg = -4\n  return y => y ^ neg\n}")),
        ("closure-rest", Src("(...ys) => len(ys)")),
        ("builtin", Direct(RVal::BuiltIn("abs".into()))),
        ("builtin-hof", Direct(RVal::BuiltIn("map".into()))),
    ]
}

/// bodies using a captured value `cap` in every syntactic position
fn capture_bodies() -> Vec<(&'static str, &'static str)> {
    vec![
        ("bare", "cap"),
        // built-ins that order their arguments (a NaN has to land in the same place whatever its sign bit / payload)
        ("median-of", "median([0, cap, x])"),
        ("percentile-of", "percentile([3, cap, x], 0)"),
        ("sort-of", "sort([x, cap, 0])"),
        ("min-max-of", "[min(cap, x), max(cap, x)]"),
        ("list-item", "[cap, x]"),
        ("record-value", "{v: cap, w: x}"),
        ("record-shorthand", "{cap}"),
        ("call-arg", "typeof(cap)"),
        ("equality-left", "cap .== x"),
        ("binary-left", "cap + x"),
        ("binary-right", "x + cap"),
        ("power-left", "cap ^ 2"),
        ("power-right", "2 ^ cap"),
        ("multiply-left", "cap * x"),
        ("unary-negate", "-cap"),
        ("factorial", "cap!"),
        ("index-base", "cap[0]"),
        ("index-index", "[1, 2, 3][cap]"),
        ("field-base", "cap.a"),
        ("call-target", "cap(x)"),
        ("via-right", "[x] via cap"),
        ("spread-list", "[...cap]"),
        ("spread-record", "{...cap}"),
        ("conditional", "if x == 1 then cap else [cap]"),
        ("coalesce", "cap ?? x"),
        ("nested-lambda", "(z => [z, cap])(x)"),
        ("nested-lambda-shadowing-parameter", "(cap => cap)(x)"),
        ("nested-lambda-shadowing-optional-parameter", "[((cap?) => [cap])(x), ((cap?) => [cap])(), cap]"),
        ("nested-lambda-shadowing-rest-parameter", "[((...cap) => cap)(x, 1), cap]"),
        ("nested-lambda-shadowing-second-parameter", "[((q, cap?) => [q, cap])(x), cap]"),
        ("do-block", "do {\n  t = cap\n  return [t, x]\n}"),
        ("do-block-shadowing-local", "do {\n  cap = x\n  return cap\n}"),
        ("do-local-shadows-captured-also-used-outside", "[do {\n  cap = x\n  return cap\n}, cap]"),
        ("inner-parameter-shadows-captured-also-used-outside", "[(cap => [cap])(x), cap]"),
        ("do-local-rebinds-captured-from-itself", "do {\n  cap = [cap, x]\n  return cap\n}"),
        ("string-concat", "to_string(cap) + \"!\""),
        ("comparison", "cap .< x"),
        ("dynamic-key", "{[to_string(cap)]: 1}"),
    ]
}

fn part_captures(ctx: &Ctx, sink: &mut Sink) {
    let tuples = ctx.budget(8, 24) as usize;
    let fixed: Vec<Vec<&str>> = vec![vec!["1"], vec!["2"], vec!["0"], vec!["\"s\""], vec!["[1, 2]"], vec!["null"], vec!["{a: 1}"], vec!["(-1)"]];
    let mut idx = 0u64;
    for (cname, item) in captured_pool() {
        for (bname, body) in capture_bodies() {
            idx += 1;
            if !ctx.mine(idx) {
                continue;
            }
            let mut r = Rng::derive(ctx.seed, "c05-cap", idx);
            let a = Sess::new();
            match &item {
                PoolItem::Direct(v) => {
                    let val = mk_value(&a.heap, v);
                    a.bind("cap", val);
                }
                PoolItem::Src(s) => {
                    if !a.eval(&format!("cap = {}", s)).is_ok() {
                        continue;
                    }
                }
            }
            // a factorial operand above 170 is a minutes-long loop (watchdog case, not an equivalence question)
            if body == "cap!" && matches!(&item, PoolItem::Direct(RVal::Num(b)) if f64::from_bits(*b).is_finite() && f64::from_bits(*b) > 170.0) {
                continue;
            }
            let def = format!("f = x => {}", body);
            if !a.eval(&def).is_ok() {
                continue;
            }
            let desc = json!({"captured": item.describe(), "definition": def});
            check_function(sink, &a, &desc, &format!("captured={} position={}", cname, bname), 1, &mut r, tuples, &fixed, &format!("cap|{}|{}", cname, bname));
            // the same closure created and named in other ways: captured from a maker's parameter (no top-level `cap`),
            // first bound under the very name it captured, and a do-block local rebound to a closure over its old value
            for (variant, setup) in [
                ("captured-from-maker-parameter", vec!["capv = cap_src".to_string(), format!("mk = cap => (x => {})", body), "f = mk(capv)".to_string()]),
                ("function-bound-under-the-captured-name", vec!["capv = cap_src".to_string(), format!("mk = cap => (x => {})", body), "cap = mk(capv)".to_string(), "f = cap".to_string()]),
                ("do-local-rebound-to-closure-over-itself", vec!["capv = cap_src".to_string(), format!("f = do {{\n  cap = capv\n  cap = (x => {})\n  return cap\n}}", body)]),
            ] {
                let b = Sess::new();
                let capv = a.env.get("cap").map(|v| a.rval(&v));
                let Some(capv) = capv else { continue };
                if matches!(capv, RVal::Fn { .. } | RVal::BuiltIn(_)) {
                    // functions cannot be rebuilt by value; take them by source when there is one
                    match &item {
                        PoolItem::Src(src) => {
                            if !b.eval(&format!("cap_src = {}", src)).is_ok() {
                                continue;
                            }
                        }
                        _ => continue,
                    }
                } else {
                    b.bind("cap_src", mk_value(&b.heap, &capv));
                }
                if !setup.iter().all(|st| b.eval(st).is_ok()) {
                    continue;
                }
                let desc = json!({"captured": item.describe(), "setup": setup});
                check_function(sink, &b, &desc, &format!("captured={} position={} how={}", cname, bname, variant), 1, &mut r, tuples.min(6), &fixed, &format!("cap|{}|{}|{}", cname, bname, variant));
            }
        }
    }
}

/// the function's own parameter (and inner parameters / locals) are named like a top-level binding
fn part_param_named_like_global(ctx: &Ctx, sink: &mut Sink) {
    if ctx.shard_i != 0 {
        return;
    }
    let bodies = [
        "g * 2",
        "(g => g + 1)(g) * g",
        "[(g => g + 1)(g), g]",
        "do {\n  g = g + 1\n  return g\n} * g",
        "[[1] via (g => g + 1), g]",
        "((g, h) => g + h)(g, 1) + g",
        "(h => (g => g * h)(h))(g) + g",
        "if g > 1 then (g => g)(g) else g",
        "{g}.g + g",
        "do {\n  h = (g => g * 2)\n  return h(g) + g\n}",
    ];
    let fixed: Vec<Vec<&str>> = vec![vec!["3"], vec!["0"], vec!["7"], vec!["(-2)"], vec!["0.5"]];
    for (i, body) in bodies.iter().enumerate() {
        let mut r = Rng::derive(ctx.seed, "c05-pg", i as u64);
        let a = Sess::new();
        let _ = a.eval("g = 42");
        let _ = a.eval("h = 1000");
        let def = format!("f = g => {}", body);
        if !a.eval(&def).is_ok() {
            continue;
        }
        check_function(sink, &a, &json!({"setup": ["g = 42", "h = 1000"], "definition": def}), &format!("parameter-named-like-global body={}", i), 1, &mut r, 10, &fixed, &format!("pg|{}", def));
    }
}

fn part_random(ctx: &Ctx, sink: &mut Sink) {
    let n = ctx.budget(24_000, 400_000);
    let tuples = ctx.budget(8, 20) as usize;
    for i in 0..n {
        if !ctx.mine(i) {
            continue;
        }
        let mut r = Rng::derive(ctx.seed, "c05-rand", i);
        let a = Sess::new();
        // captured scope: a few top-level data bindings and helper closures
        let mut sc = gens::Scope::new();
        let mut setup: Vec<String> = Vec::new();
        let nbind = r.below(5);
        for k in 0..nbind {
            let t = *r.pick(&[Ty::Num, Ty::Num, Ty::Str, Ty::LNum, Ty::Rec, Ty::Bool, Ty::FnNN]);
            let e = {
                let mut g = Gen::new(&mut r, GenCfg { odd_strings: true, ..GenCfg::default() });
                g.expr(t, 2, &mut sc)
            };
            let name = format!("cv{}", k);
            let stmt = print_min(&assign(&name, e));
            if a.eval(&stmt).is_ok() {
                sc.vars.push((name, t));
                setup.push(stmt);
            }
        }
        // half of the cases also have a top-level binding named like the parameter
        if r.chance(1, 2) {
            let stmt = format!("x = {}", 40 + r.below(9));
            if a.eval(&stmt).is_ok() {
                setup.push(stmt);
            }
        }
        let depth = 1 + r.below(6);
        let rt = *r.pick(&[Ty::Num, Ty::Bool, Ty::Str, Ty::LNum, Ty::Rec, Ty::Any]);
        let body = {
            sc.vars.push(("x".into(), Ty::Num));
            let mut g = Gen::new(&mut r, GenCfg { odd_strings: true, shadowing_permille: 350, ..GenCfg::default() });
            let b = g.expr(rt, depth, &mut sc);
            sc.vars.pop();
            b
        };
        let def = print_min(&assign("f", lam1("x", body)));
        if !a.eval(&def).is_ok() {
            continue;
        }
        let fixed: Vec<Vec<&str>> = vec![vec!["2"], vec!["0"], vec!["7"], vec!["0.5"], vec!["(-3)"], vec!["100"]];
        let desc = json!({"setup": setup, "definition": def});
        check_function(sink, &a, &desc, "random-body", 1, &mut r, tuples, &fixed, &format!("rand|{}|{}", setup.join(";"), def));
    }
}

/// `blots prog1 | blots prog2`: the emitted function crosses a real process boundary
fn part_cli(ctx: &Ctx, sink: &mut Sink) {
    let Some(cli) = ctx.opt("cli") else { return };
    if ctx.shard_i != 0 {
        return;
    }
    let progs = [
        ("k = 3\noutput f = x => x + k", "output r = inputs.f(4)", "7"),
        ("s = \"it's\"\noutput f = x => s + x", "output r = inputs.f(\"!\")", "\"it's!\""),
        ("n = -2\noutput f = x => x ^ n", "output r = inputs.f(2)", "0.25"),
        ("g = y => y * 2\noutput f = x => g(x) + 1", "output r = inputs.f(5)", "11"),
        ("output f = (a, b?) => [a, b]", "output r = inputs.f(1)", "[1,null]"),
        ("output f = (...r) => len(r)", "output r = inputs.f(1, 2, 3)", "3"),
        ("output f = x => -(x + 1)", "output r = inputs.f(2)", "-3"),
        ("output f = x => (x + 1) * 2", "output r = inputs.f(2)", "6"),
        ("output f = x => (if x > 1 then 10 else 20) + 1", "output r = inputs.f(2)", "11"),
        ("output f = l => ((l via (v => v + 1)) into sum)", "output r = inputs.f([1, 2])", "5"),
        ("r3 = {a: [1, 2], \"b c\": \"q\"}\noutput f = x => r3", "output r = inputs.f(0)", "{\"a\":[1,2],\"b c\":\"q\"}"),
        ("output f = abs", "output r = inputs.f(-2)", "2"),
    ];
    for (i, (p1, p2, exp)) in progs.iter().enumerate() {
        let o1 = std::process::Command::new(cli).arg(p1).stdin(std::process::Stdio::null()).output();
        let Ok(o1) = o1 else { continue };
        sink.case(&format!("cli|{}", i), true);
        sink.count("cli_pipelines", 1);
        if !o1.status.success() {
            sink.viol("cli-first-program-fails", "a program that outputs a closed function fails", json!({"program": p1, "stderr": String::from_utf8_lossy(&o1.stderr)}));
            continue;
        }
        use std::io::Write;
        let mut child = match std::process::Command::new(cli).arg(p2).stdin(std::process::Stdio::piped()).stdout(std::process::Stdio::piped()).stderr(std::process::Stdio::piped()).spawn() {
            Ok(c) => c,
            Err(_) => continue,
        };
        let _ = child.stdin.take().unwrap().write_all(&o1.stdout);
        let Ok(o2) = child.wait_with_output() else { continue };
        let got: Option<serde_json::Value> = serde_json::from_slice(&o2.stdout).ok();
        let want: serde_json::Value = serde_json::from_str(exp).unwrap();
        let ok = match got.as_ref().and_then(|g| g.get("r")) {
            Some(r) => json_num_eq(r, &want),
            None => false,
        };
        if !ok {
            sink.viol("cli-pipe-differs", "a function piped from one program into another does not behave like the original", json!({"first": p1, "emitted": String::from_utf8_lossy(&o1.stdout), "second": p2, "stdout": String::from_utf8_lossy(&o2.stdout), "stderr": String::from_utf8_lossy(&o2.stderr), "expected_r": exp}));
        }
    }
}

fn json_num_eq(a: &serde_json::Value, b: &serde_json::Value) -> bool {
    match (a, b) {
        (serde_json::Value::Number(x), serde_json::Value::Number(y)) => x.as_f64() == y.as_f64(),
        (serde_json::Value::Array(x), serde_json::Value::Array(y)) => x.len() == y.len() && x.iter().zip(y).all(|(p, q)| json_num_eq(p, q)),
        (serde_json::Value::Object(x), serde_json::Value::Object(y)) => x.len() == y.len() && x.iter().all(|(k, v)| y.get(k).map(|w| json_num_eq(v, w)).unwrap_or(false)),
        _ => a == b,
    }
}

/// functions with unbound names must be rejected by the validator (and only those)
fn part_validator(ctx: &Ctx, sink: &mut Sink) {
    if ctx.shard_i != 0 {
        return;
    }
    let cases: Vec<(Vec<&str>, bool)> = vec![
        (vec!["f = x => x + 1"], true),
        (vec!["k = 1", "f = x => x + k"], true),
        (vec!["f = x => x + later_name"], false),
        (vec!["f = x => abs(x)"], true),
        (vec!["f = x => [x] via (y => y + undefined_q)"], false),
        (vec!["f = x => do {\n  t = x\n  return t\n}"], true),
        (vec!["f = x => if x <= 0 then 0 else f(x - 1)"], true),
        (vec!["f = x => {x}"], true),
        (vec!["f = x => {unbound_short}"], false),
    ];
    for (setup, closed) in cases {
        let a = Sess::new();
        for s in &setup {
            let _ = a.eval(s);
        }
        let Some(f) = a.env.get("f") else { continue };
        let ok = validate_portable_value(&f, &a.heap.borrow(), &a.env).is_ok();
        sink.case(&format!("validator|{:?}", setup), true);
        if ok != closed {
            sink.viol(if closed { "validator-rejects-closed-function directed" } else { "validator-accepts-open-function" }, "validate_portable_value does not accept exactly the closed functions", json!({"setup": setup, "accepted": ok}));
        }
    }
    let _ = Out::Panic(String::new());
}

pub fn run(ctx: &Ctx, sink: &mut Sink) {
    let part = ctx.opt("part").unwrap_or("all").to_string();
    if part == "all" || part == "shapes" {
        part_shapes(ctx, sink);
    }
    if part == "all" || part == "captures" {
        part_captures(ctx, sink);
    }
    if part == "all" || part == "random" {
        part_param_named_like_global(ctx, sink);
        part_random(ctx, sink);
    }
    if part == "all" || part == "cli" {
        part_cli(ctx, sink);
        part_validator(ctx, sink);
    }
}
