//! C07 (formatter preserves meaning), C08 (idempotent), C09 (keeps comments).
//!
//! One workload generator, three oracles. Library path = per-statement `format_expr` and the mirrored
//! `format_blots` driver (`rt::format_source_driver`: the real blots-wasm source compiled into the harness, see rt.rs); CLI path = the real `blots --format`.

use crate::Ctx;
use crate::gens::{Gen, GenCfg, NAMES};
use crate::hexpr::*;
use crate::hexpr::replace_nth_child;
use crate::out::Sink;
use crate::rng::Rng;
use crate::rt::{self, Sess, format_source_driver, guard, parse_program, parse_program_ast};
use crate::shapes::{self, first_difference};
use blots_core::formatter::format_expr;
use serde_json::json;

const WIDTHS_ALL: [Option<usize>; 16] = [
    Some(1), Some(2), Some(3), Some(5), Some(8), Some(13), Some(20), Some(30), Some(40), Some(60), Some(79), Some(80), Some(81),
    Some(100), Some(120), None,
];
const WIDTHS_Q: [Option<usize>; 5] = [Some(1), Some(8), Some(20), Some(40), None];

fn wcls(w: Option<usize>) -> String {
    match w {
        None => "default".into(),
        Some(x) if x <= 3 => "tiny".into(),
        Some(x) if x <= 20 => "narrow".into(),
        Some(x) if x <= 60 => "medium".into(),
        Some(_) => "wide".into(),
    }
}

/// format one statement text; Err = input does not parse (not a formatter problem)
fn fmt_one(src: &str, w: Option<usize>) -> Result<Result<String, String>, String> {
    let asts = parse_program_ast(src, true)?;
    if asts.len() != 1 {
        return Err(format!("{} statements", asts.len()));
    }
    Ok(guard(|| format_expr(&asts[0], w)).map_err(|p| format!("PANIC: {}", p)))
}

fn parse1(src: &str) -> Result<H, String> {
    let v = parse_program(src)?;
    if v.len() != 1 {
        return Err(format!("expected 1 statement, parser produced {}", v.len()));
    }
    Ok(v.into_iter().next().unwrap())
}

/// Does `h` survive print -> parse -> format(w) -> parse ?
fn roundtrip_ok(h: &H, w: Option<usize>) -> bool {
    let s = print_full(h);
    let Ok(a) = parse1(&s) else { return true };
    match fmt_one(&s, w) {
        Ok(Ok(f)) => matches!(parse1(&f), Ok(b) if b == a),
        Ok(Err(_)) => false,
        Err(_) => true,
    }
}

fn kids(h: &H) -> Vec<H> {
    let mut v = Vec::new();
    h.for_children(&mut |c| v.push(c.clone()));
    v
}

fn is_leaf(h: &H) -> bool {
    matches!(h, H::Id(_) | H::Num(_) | H::Str(_) | H::Bool(_) | H::Null | H::BuiltIn(_) | H::InRef(_))
}

/// Find the smallest sub-tree that does not survive formatting and name the printer decision at fault.
fn localise(h: &H, w: Option<usize>, budget: &mut usize) -> Option<(String, String)> {
    if *budget == 0 {
        return None;
    }
    for c in kids(h) {
        if let Some(r) = localise(&c, w, budget) {
            return Some(r);
        }
    }
    *budget = budget.saturating_sub(1);
    if roundtrip_ok(h, w) {
        return None;
    }
    // h fails, every child alone is fine: which child position is the decision at fault?
    let ks = kids(h);
    let probe = id("zz");
    for (i, k) in ks.iter().enumerate() {
        if is_leaf(k) {
            continue;
        }
        let h2 = replace_nth_child(h, i, &probe);
        if roundtrip_ok(&h2, w) {
            // describe via first_difference between h and the (mis)parsed result if it parses
            let s = print_full(h);
            if let (Ok(a), Ok(Ok(f))) = (parse1(&s), fmt_one(&s, w)) {
                if let Ok(b) = parse1(&f) {
                    let (c, ch) = first_difference(&a, &b);
                    if c != "-" && c != "Top" {
                        return Some((c, ch));
                    }
                }
            }
            let lab = ctx_label(h, i);
            return Some((lab, child_label(k)));
        }
    }
    Some((h.kind(), "whole-node".into()))
}

fn child_label(k: &H) -> String {
    match k {
        H::Bin(o, ..) => format!("Bin(L{}{})", o.level(), if o.is_word() { "w" } else { "" }),
        H::Un(UOp::Neg, e) if matches!(&**e, H::Num(_)) => "NegLiteral".into(),
        H::Un(..) => "Prefix".into(),
        other => other.kind(),
    }
}

fn ctx_label(h: &H, i: usize) -> String {
    match h {
        H::Bin(o, ..) => format!("Bin{}(L{}{})", if i == 0 { "L" } else { "R" }, o.level(), if o.is_word() { "w" } else { "" }),
        H::Un(..) => "Prefix".into(),
        H::Fact(_) => "PostfixBase(fact)".into(),
        H::Call(..) => if i == 0 { "PostfixBase(call)".into() } else { "CallArg".into() },
        H::Index(..) => if i == 0 { "PostfixBase(index)".into() } else { "IndexIdx".into() },
        H::Field(..) => "PostfixBase(field)".into(),
        H::Cond(..) => ["CondIf", "CondThen", "CondElse"][i.min(2)].into(),
        H::Lam(..) => "LambdaBody".into(),
        H::List(_) => "ListItem".into(),
        H::Rec(_) => "RecEntry".into(),
        H::Do(ss, _) => if i < ss.len() { "DoStmt".into() } else { "DoRet".into() },
        H::Assign(..) => "AssignValue".into(),
        H::Output(_) => "Output".into(),
        H::Spread(_) => "Spread".into(),
        _ => h.kind(),
    }
}

// ------------------------------------------------------------------------------------------------
// comment scanner (strings have no escapes in this grammar)

pub fn scan_comments(src: &str) -> Vec<String> {
    let cs: Vec<char> = src.chars().collect();
    let mut out = Vec::new();
    let mut i = 0;
    let mut in_str: Option<char> = None;
    while i < cs.len() {
        let c = cs[i];
        if let Some(q) = in_str {
            if c == q {
                in_str = None;
            }
            i += 1;
            continue;
        }
        if c == '"' || c == '\'' {
            in_str = Some(c);
            i += 1;
            continue;
        }
        if c == '/' && i + 1 < cs.len() && cs[i + 1] == '/' {
            let mut j = i;
            while j < cs.len() && cs[j] != '\n' {
                j += 1;
            }
            let text: String = cs[i..j].iter().collect();
            out.push(text.trim_end().to_string());
            i = j;
            continue;
        }
        i += 1;
    }
    out
}

// ------------------------------------------------------------------------------------------------
// oracles on one (source, width)

struct Verdicts<'a> {
    which: &'a str, // "C07" | "C08" | "C09"
}

/// statement-level check through `format_expr`
fn check_stmt(v: &Verdicts, sink: &mut Sink, src: &str, w: Option<usize>, known: Option<(&str, &str)>, origin: &str) {
    let a = match parse1(src) {
        Ok(a) => a,
        Err(_) => return,
    };
    let f1 = match fmt_one(src, w) {
        Ok(Ok(f)) => f,
        Ok(Err(p)) => {
            sink.viol_for("C01", &format!("stage=format_expr {}", crate::props::c01::norm_panic(&p)), "format_expr panicked", json!({"source": src, "width": w, "panic": p}));
            return;
        }
        Err(_) => return,
    };
    let changed = f1 != src;
    sink.case(&format!("{}|{:?}|{}", origin, w, src), changed);
    if sink.want_sample() && changed && f1.contains('\n') {
        sink.sample(json!({"origin": origin, "width": w, "source": src, "formatted": f1}));
    }
    let reparsed = parse1(&f1);
    match v.which {
        "C07" => match &reparsed {
            Ok(b) if *b == a => {}
            Ok(b) => {
                let (c, ch) = match known {
                    Some((c, ch)) => (c.to_string(), ch.to_string()),
                    None => {
                        let mut budget = 400;
                        localise(&a, w, &mut budget).unwrap_or_else(|| first_difference(&a, b))
                    }
                };
                sink.viol(&format!("printer ctx={} child={}", c, ch), "formatted text parses to a different program", json!({"source": src, "width": w, "formatted": f1, "reparsed_as": print_full(b), "origin": origin}));
            }
            Err(e) => {
                let (c, ch) = match known {
                    Some((c, ch)) => (c.to_string(), ch.to_string()),
                    None => {
                        let mut budget = 400;
                        localise(&a, w, &mut budget).unwrap_or(("layout".into(), format!("w={}", wcls(w))))
                    }
                };
                sink.viol(&format!("printer ctx={} child={}", c, ch), "formatted text is rejected by the parser", json!({"source": src, "width": w, "formatted": f1, "error": e.chars().take(300).collect::<String>(), "origin": origin}));
            }
        },
        "C08" => {
            if reparsed.is_ok() {
                match fmt_one(&f1, w) {
                    Ok(Ok(f2)) => {
                        if f2 != f1 {
                            let top = a.kind();
                            sink.viol(&format!("not-idempotent stmt top={} w={}", top, wcls(w)), "formatting the formatter's output changes it", json!({"source": src, "width": w, "first": f1, "second": f2, "origin": origin}));
                        }
                    }
                    _ => {}
                }
            } else {
                let top = a.kind();
                sink.viol(&format!("second-pass-rejects-first-pass-output stmt top={}", top), "the formatter's output is not accepted by the formatter (it does not parse)", json!({"source": src, "width": w, "first": f1, "origin": origin}));
            }
        }
        _ => {}
    }
}

/// program-level check through the mirrored library driver (and optionally the CLI)
fn check_program(v: &Verdicts, sink: &mut Sink, src: &str, w: Option<usize>, class: &str, cli: Option<&str>, origin: &str) {
    // only programs the parser accepts
    let Ok(a) = parse_program(src) else {
        sink.count(&format!("not-admitted:{}", class), 1);
        return;
    };
    let comments_in = scan_comments(src);
    let f1 = match format_source_driver(src, w) {
        Ok(f) => f,
        Err(e) => {
            if e.starts_with("PANIC") {
                sink.viol_for("C01", &format!("stage=format_source {}", crate::props::c01::norm_panic(&e)), "formatter driver panicked", json!({"source": src, "width": w, "panic": e}));
            } else if e.starts_with("DRIVER") {
                // the mirror formats this source, the real driver reports an error
                sink.viol(&format!("driver-rejects-accepted-program class={}", class), "the library format driver fails on a program the parser accepts", json!({"source": src, "width": w, "driver_error": e, "origin": origin}));
            }
            return;
        }
    };
    let nontrivial = match v.which {
        "C09" => !comments_in.is_empty(),
        _ => f1 != src,
    };
    sink.case(&format!("{}|prog|{:?}|{}", origin, w, src), nontrivial);
    if sink.want_sample() && nontrivial && src.len() < 600 {
        sink.sample(json!({"origin": origin, "class": class, "width": w, "source": src, "formatted": f1}));
    }
    match v.which {
        "C07" => match parse_program(&f1) {
            Ok(b) if b == a => {}
            Ok(b) => {
                // localise on the first differing statement
                let mut sig = ("program".to_string(), "statement-count".to_string());
                for (x, y) in a.iter().zip(b.iter()) {
                    if x != y {
                        let mut budget = 400;
                        sig = localise(x, w, &mut budget).unwrap_or_else(|| first_difference(x, y));
                        break;
                    }
                }
                sink.viol(&format!("printer ctx={} child={}", sig.0, sig.1), "formatted program parses to a different program", json!({"source": src, "width": w, "formatted": f1, "origin": origin}));
            }
            Err(e) => {
                let mut sig = ("layout".to_string(), format!("{} w={}", class, wcls(w)));
                for x in a.iter() {
                    let mut budget = 300;
                    if let Some(s) = localise(x, w, &mut budget) {
                        sig = s;
                        break;
                    }
                }
                sink.viol(&format!("printer ctx={} child={}", sig.0, sig.1), "formatted program is rejected by the parser", json!({"source": src, "width": w, "formatted": f1, "error": e.chars().take(300).collect::<String>(), "origin": origin}));
            }
        },
        "C08" => {
            if parse_program(&f1).is_ok() {
                if let Ok(f2) = format_source_driver(&f1, w) {
                    if f2 != f1 {
                        sink.viol(&format!("not-idempotent program class={} w={}", class, wcls(w)), "formatting the formatter's output changes it (library driver)", json!({"source": src, "width": w, "first": f1, "second": f2, "origin": origin}));
                    }
                }
            } else {
                // the formatter's own output cannot even be read again: formatting it does not "return it unchanged"
                sink.viol(&format!("second-pass-rejects-first-pass-output class={}", class), "the formatter's output is not accepted by the formatter (it does not parse)", json!({"source": src, "width": w, "first": f1, "origin": origin}));
            }
        }
        "C09" => {
            let comments_out = scan_comments(&f1);
            if comments_out != comments_in {
                sink.viol(&format!("comment-class={} driver=lib", class), "comment sequence of the output differs from the input (library driver)", json!({"source": src, "width": w, "formatted": f1, "comments_in": comments_in, "comments_out": comments_out}));
            }
        }
        _ => {}
    }
    // ---- CLI leg (default width only: the CLI has no width option)
    if let (Some(cli), None) = (cli, w) {
        let Some(cf1) = cli_format(cli, src) else {
            sink.count("cli_format_failed", 1);
            if v.which == "C07" {
                sink.viol(&format!("cli-format-rejects class={}", class), "`blots --format` fails on a program the parser accepts", json!({"source": src}));
            }
            return;
        };
        sink.count("cli_format_runs", 1);
        match v.which {
            "C07" => match parse_program(&cf1) {
                Ok(b) if b == a => {}
                Ok(_) | Err(_) => {
                    let mut sig = ("layout".to_string(), format!("{} cli", class));
                    for x in a.iter() {
                        let mut budget = 300;
                        if let Some(s) = localise(x, None, &mut budget) {
                            sig = s;
                            break;
                        }
                    }
                    sink.viol(&format!("printer ctx={} child={}", sig.0, sig.1), "`blots --format` output is not the same program", json!({"source": src, "formatted": cf1, "driver": "cli"}));
                }
            },
            "C08" => {
                if parse_program(&cf1).is_ok() {
                    if let Some(cf2) = cli_format(cli, &cf1) {
                        if cf2 != cf1 {
                            sink.viol(&format!("not-idempotent program class={} driver=cli", class), "`blots --format` twice differs from once", json!({"source": src, "first": cf1, "second": cf2}));
                        }
                    }
                }
            }
            "C09" => {
                let co = scan_comments(&cf1);
                if co != comments_in {
                    sink.viol(&format!("comment-class={} driver=cli", class), "comment sequence of the output differs from the input (`blots --format`)", json!({"source": src, "formatted": cf1, "comments_in": comments_in, "comments_out": co}));
                }
            }
            _ => {}
        }
    }
}

fn cli_format(cli: &str, src: &str) -> Option<String> {
    use std::sync::atomic::{AtomicU64, Ordering};
    static N: AtomicU64 = AtomicU64::new(0);
    let n = N.fetch_add(1, Ordering::Relaxed);
    let pid = std::process::id();
    let inp = format!("fmt-in-{}-{}.blots", pid, n);
    let outp = format!("fmt-out-{}-{}.blots", pid, n);
    std::fs::write(&inp, src).ok()?;
    let st = std::process::Command::new(cli)
        .arg("--format")
        .arg(&inp)
        .arg(&outp)
        .stdin(std::process::Stdio::null())
        .stdout(std::process::Stdio::null())
        .stderr(std::process::Stdio::null())
        .status()
        .ok()?;
    let res = if st.success() { std::fs::read_to_string(&outp).ok() } else { None };
    let _ = std::fs::remove_file(&inp);
    let _ = std::fs::remove_file(&outp);
    res
}

// ------------------------------------------------------------------------------------------------
// comment injection

#[derive(Clone, Copy, Debug, PartialEq, Eq)]
pub enum CClass {
    P1OwnLineBeforeStmt,
    P2StmtEol,
    P3OwnLineAtEnd,
    P4ListAfterOpen,
    P5ListAfterCommaOwnLine,
    P5bListAfterCommaSameLine,
    P6ListBeforeClose,
    P7ListLastItemEol,
    P7bListLastItemEolThenOwnLine,
    P8RecAfterOpen,
    P9RecAfterCommaOwnLine,
    P9bRecAfterCommaSameLine,
    P10RecBeforeClose,
    P11RecLastItemEol,
    P11bRecLastItemEolThenOwnLine,
    P12DoAfterOpen,
    P13DoBeforeStmt,
    P14DoBeforeReturn,
    P15DoStmtEol,
    Q1CallArgs,
    Q2AfterInfixOp,
    Q3BeforeInfixOp,
    Q4CondParts,
    Q5AfterArrow,
    Q6InsideParens,
    Q8AfterRecColon,
}

pub const CCLASSES: [CClass; 26] = [
    CClass::P1OwnLineBeforeStmt, CClass::P2StmtEol, CClass::P3OwnLineAtEnd, CClass::P4ListAfterOpen, CClass::P5ListAfterCommaOwnLine,
    CClass::P5bListAfterCommaSameLine, CClass::P6ListBeforeClose, CClass::P7ListLastItemEol, CClass::P7bListLastItemEolThenOwnLine, CClass::P8RecAfterOpen,
    CClass::P9RecAfterCommaOwnLine, CClass::P9bRecAfterCommaSameLine, CClass::P10RecBeforeClose, CClass::P11RecLastItemEol, CClass::P11bRecLastItemEolThenOwnLine,
    CClass::P12DoAfterOpen, CClass::P13DoBeforeStmt, CClass::P14DoBeforeReturn, CClass::P15DoStmtEol, CClass::Q1CallArgs,
    CClass::Q2AfterInfixOp, CClass::Q3BeforeInfixOp, CClass::Q4CondParts, CClass::Q5AfterArrow, CClass::Q6InsideParens, CClass::Q8AfterRecColon,
];

impl CClass {
    pub fn name(self) -> String {
        let s = format!("{:?}", self);
        // "P5bListAfter..." -> "P5b"
        let mut id = String::new();
        for (i, c) in s.chars().enumerate() {
            if i == 0 || c.is_ascii_digit() || (c.is_ascii_lowercase() && id.chars().last().map(|l| l.is_ascii_digit()).unwrap_or(false) && i < 4) {
                id.push(c);
            } else {
                break;
            }
        }
        format!("{}-{}", id, &s[id.len()..])
    }
}

/// Print `stmts` with comments of class `cls` injected at (a random half of) the matching positions.
/// where a comment of class `cls` goes, and in which textual form
fn gap_hit(cls: CClass, g: Gap) -> Option<u8> {
    match (cls, g) {
                    (CClass::P4ListAfterOpen, Gap::AfterListOpen) => Some(1),
                    (CClass::P5ListAfterCommaOwnLine, Gap::AfterListComma) => Some(1),
                    (CClass::P5bListAfterCommaSameLine, Gap::AfterListComma) => Some(2),
                    (CClass::P6ListBeforeClose, Gap::BeforeListClose) => Some(3),
                    (CClass::P7ListLastItemEol | CClass::P7bListLastItemEolThenOwnLine, Gap::ListLastItemEol) => Some(4),
                    (CClass::P8RecAfterOpen, Gap::AfterRecOpen) => Some(1),
                    (CClass::P9RecAfterCommaOwnLine, Gap::AfterRecComma) => Some(1),
                    (CClass::P9bRecAfterCommaSameLine, Gap::AfterRecComma) => Some(2),
                    (CClass::P10RecBeforeClose, Gap::BeforeRecClose) => Some(3),
                    (CClass::P11RecLastItemEol | CClass::P11bRecLastItemEolThenOwnLine, Gap::RecLastItemEol) => Some(4),
                    (CClass::P12DoAfterOpen, Gap::DoAfterOpen) => Some(5),
                    (CClass::P13DoBeforeStmt, Gap::DoBeforeStmt) => Some(6),
                    (CClass::P14DoBeforeReturn, Gap::DoBeforeReturn) => Some(6),
                    (CClass::P15DoStmtEol, Gap::DoStmtEol) => Some(7),
                    (CClass::Q1CallArgs, Gap::AfterCallOpen | Gap::AfterCallComma | Gap::BeforeCallClose) => Some(8),
                    (CClass::Q2AfterInfixOp, Gap::AfterSymOp) => Some(8),
                    (CClass::Q3BeforeInfixOp, Gap::BeforeSymOp | Gap::BeforeWordOp) => Some(8),
                    (CClass::Q4CondParts, Gap::BeforeThen | Gap::AfterThen | Gap::BeforeElse | Gap::AfterElse) => Some(8),
                    (CClass::Q5AfterArrow, Gap::AfterArrow) => Some(8),
                    (CClass::Q6InsideParens, Gap::AfterOpenParen | Gap::BeforeCloseParen) => Some(8),
                    (CClass::Q8AfterRecColon, Gap::AfterRecColon) => Some(8),
        _ => None,
    }
}

pub(crate) fn inject(stmts: &[H], cls: CClass, r: &mut Rng, every: bool) -> (String, usize) {
    inject_two(stmts, cls, None, r, every)
}

/// comments of class `cls` and, in the same statements, of a second class `cls2` (e.g. one the tree carries and one it does not)
fn inject_two(stmts: &[H], cls: CClass, cls2: Option<CClass>, r: &mut Rng, every: bool) -> (String, usize) {
    let mut n = 0usize;
    let mut out_stmts: Vec<String> = Vec::new();
    for (si, s) in stmts.iter().enumerate() {
        let mut rr = Rng(r.next());
        let mut pending_close_newline = false;
        let mut text = {
            let mut deco = |g: Gap| -> Option<String> {
                // a same-line comment must be followed by a line break before the closer
                if pending_close_newline && matches!(g, Gap::BeforeListClose | Gap::BeforeRecClose) {
                    pending_close_newline = false;
                    if matches!(cls, CClass::P7bListLastItemEolThenOwnLine | CClass::P11bRecLastItemEolThenOwnLine) {
                        n += 2;
                        return Some(format!("\n  // own{}_{}a\n  // own{}_{}b\n", si, n, si, n));
                    }
                    return Some("\n".to_string());
                }
                let hit = gap_hit(cls, g).or_else(|| cls2.and_then(|c2| gap_hit(c2, g)));
                let kind = hit?;
                if !every && !rr.chance(1, 2) {
                    return None;
                }
                n += 1;
                let c = format!("// c{}_{} {}", si, n, ["note", "it's", "a \"quoted\" word", "x = 1", "[not, code]", "", "ünï", "see https://example.com/a//b", "first // second", "//// banner ////", "# hash /* block */"][rr.below(11)]);
                let c = c.trim_end().to_string();
                Some(match kind {
                    1 => format!("\n  {}\n  ", c),
                    2 => format!("{}{}\n  ", ["", " ", "  ", "\t"][rr.below(4)], c),
                    3 => format!("\n  {}\n", c),
                    4 => {
                        pending_close_newline = true;
                        format!("{}{}", ["", " ", "  ", "\t"][rr.below(4)], c)
                    }
                    5 => format!("\n  {}\n", c),
                    6 => format!("{}\n", c),
                    7 => c.to_string(),
                    _ => format!(" {}\n  ", c),
                })
            };
            let mut p = Printer::new(Mode::Min);
            p.deco = Some(&mut deco);
            p.print_stmt(s)
        };
        match cls {
            CClass::P1OwnLineBeforeStmt if every || rr.chance(1, 2) => {
                n += 1;
                text = format!("// lead{}_{}{}\n{}", si, n, ["", "", " https://example.com/rates", " // again", "//"][rr.below(5)], text);
            }
            CClass::P2StmtEol if every || rr.chance(1, 2) => {
                n += 1;
                // the gap before an end-of-line comment is free: none at all, one space, two, a tab
                let gap = ["", " ", "  ", "\t", "   "][rr.below(5)];
                text = format!("{}{}// eol{}_{}{}", text, gap, si, n, ["", "", " // incl. tax", " http://x.y/z", "////"][rr.below(5)]);
            }
            _ => {}
        }
        out_stmts.push(text);
    }
    let mut src = out_stmts.join("\n");
    if cls == CClass::P3OwnLineAtEnd {
        n += 1;
        src.push_str(["\n// the end", "\n// the end // really", "\n//// the end ////"][r.below(3)]);
    }
    (src, n)
}

// ------------------------------------------------------------------------------------------------
// workloads

/// the statement written with a lot of optional layout: long runs of spaces / tabs at every gap that admits them and line
/// breaks followed by deep indentation inside brackets, after operators and round the parts of a conditional (a source text
/// many times longer than the program it denotes; the formatter's result may depend on the tree and the width only)
fn spacious(stmt: &H, r: &mut Rng) -> String {
    let mut rr = r.clone();
    r.next();
    let dense = rr.chance(1, 2);
    let mut deco = |g: Gap| -> Option<String> {
        if !dense && !rr.chance(2, 3) {
            return None;
        }
        let canon = g.canonical();
        let ws_ok = !matches!(g, Gap::AfterIndexOpen | Gap::BeforeIndexClose | Gap::MaybeParen | Gap::ListTrailingComma | Gap::RecTrailingComma | Gap::CallTrailingComma | Gap::DoAfterOpen | Gap::DoBeforeClose | Gap::DoBeforeStmt | Gap::DoBeforeReturn | Gap::DoStmtEol | Gap::ListLastItemEol | Gap::RecLastItemEol);
        let nl_ok = matches!(g, Gap::AfterSymOp | Gap::AfterOpenParen | Gap::BeforeCloseParen | Gap::AfterListOpen | Gap::AfterListComma | Gap::BeforeListClose
            | Gap::AfterRecOpen | Gap::AfterRecComma | Gap::BeforeRecClose | Gap::AfterRecColon | Gap::AfterArrow | Gap::AfterCallOpen | Gap::AfterCallComma | Gap::BeforeCallClose
            | Gap::BeforeThen | Gap::AfterThen | Gap::BeforeElse | Gap::AfterElse);
        if nl_ok && rr.chance(1, 2) {
            return Some(format!("\n{}", " ".repeat([2usize, 8, 24, 60, 120][rr.below(5)])));
        }
        if ws_ok {
            let pad = if rr.chance(1, 4) { "\t".repeat(1 + rr.below(6)) } else { " ".repeat([1usize, 3, 10, 40, 90][rr.below(5)]) };
            return Some(format!("{}{}", canon, pad));
        }
        None
    };
    let mut p = Printer::new(Mode::Min);
    p.deco = Some(&mut deco);
    p.print_stmt(stmt)
}

fn gen_program(r: &mut Rng, n_stmts: usize, depth: usize) -> Vec<H> {
    let mut g = Gen::new(r, GenCfg { inputs: true, odd_strings: true, ..GenCfg::default() });
    g.program(n_stmts, depth, &NAMES).0
}

/// layouts that force each multi-line rule
fn layout_programs() -> Vec<(&'static str, String)> {
    let long_list = format!("xs = [{}]", (0..30).map(|i| format!("{}", i * 1000 + 7)).collect::<Vec<_>>().join(", "));
    let long_rec = format!("cfg = {{{}}}", (0..12).map(|i| format!("key_number_{}: {}", i, i * 31)).collect::<Vec<_>>().join(", "));
    let long_call = format!("r = max({})", (0..30).map(|i| format!("{} * 2", i + 100)).collect::<Vec<_>>().join(", "));
    let long_bin = format!("total = {}", (0..25).map(|i| format!("value_{}", i)).collect::<Vec<_>>().join(" + "));
    let mixed_bin = "z = (alpha + beta) * (gamma - delta) / (epsilon % zeta) ^ (eta ?? theta) + iota * kappa - lambda_ / mu".to_string();
    let cond = "grade = if score_value >= 90 then \"excellent\" else if score_value >= 80 then \"good\" else if score_value >= 70 then \"fair\" else \"poor\"".to_string();
    let cond_long_if = "c = if (alpha_value + beta_value + gamma_value + delta_value + epsilon_value > threshold_value_one) and (zeta > eta) then first_choice else second_choice".to_string();
    let lam_do = "h = (first_parameter, second_parameter?) => do {\n  t = first_parameter * 2\n  u = t + (second_parameter ?? 0)\n  return [t, u, t + u]\n}".to_string();
    let via_chain = "res = range(100) where (value => value % 3 == 0) via (value, index) => value * index + 1000000 into (list_of_values => sum(list_of_values))".to_string();
    let via_do = "w = [1, 2, 3] via item => do {\n  doubled = item * 2\n  return doubled + 1\n}".to_string();
    let nested = "n = {outer: {inner: [1, 2, {deep: [\"a\", \"b\", {deeper: true, deepest: [null, 1.5, -2]}]}], other: (x, y) => x + y}, list: [[1, 2], [3, 4], [5, [6, [7, 8]]]]}".to_string();
    let out = "output result_value = {alpha: 1, beta: [1, 2, 3], gamma: \"a string value\", delta: {epsilon: 2.5, zeta: null, eta: true}}".to_string();
    let lam_long = "f = (a_long_parameter_name, another_long_parameter_name) => a_long_parameter_name * another_long_parameter_name + a_long_parameter_name".to_string();
    let call_lam = "m = map([1, 2, 3, 4, 5, 6, 7, 8, 9, 10], (element_value, element_index) => element_value * element_index + element_value)".to_string();
    let unary = "u = -(alpha_value + beta_value) * !(gamma_flag and delta_flag) + (epsilon_value!) - (if zeta then eta else theta) + (iota + kappa)[0] + (lam + mu).field".to_string();
    let strs = "s = [\"it's\", 'say \"hi\"', \"plain\", 'x', \"a,b\", \"with // slashes\"]".to_string();
    let keys = "k = {\"two words\": 1, \"0start\": 2, plain: 3, \"if\": 4, \"é\": 5, [\"dyn\" + \"amic\"]: 6, ...other}".to_string();
    vec![
        ("long-list", long_list), ("long-record", long_rec), ("long-call", long_call), ("long-binary", long_bin), ("mixed-binary", mixed_bin),
        ("else-if-chain", cond), ("long-condition", cond_long_if), ("lambda-do", lam_do), ("via-where-into", via_chain), ("via-lambda-do", via_do),
        ("nested-collections", nested), ("output", out), ("long-lambda", lam_long), ("call-with-lambda", call_lam), ("unary-postfix-mix", unary),
        ("string-quotes", strs), ("record-keys", keys),
        // statements that start with a unary minus, after every kind of statement (the drivers track "first statement" state)
        ("minus-after-output", "// totals\noutput total = 10\n(-total)\n(-3 + total)".to_string()),
        ("minus-after-outputs-and-comment", "output a = 1\noutput b = 2\n// note\n(-a)\noutput c = (-b)\n(-c)".to_string()),
        ("minus-first-statement", "(-1)\n(-2)\nx = 3\n(-x)".to_string()),
        ("minus-after-assignment-and-blank-lines", "x = 1\n\n\n(-x)\n\n(-x) + 1  // eol".to_string()),
    ]
}

fn id_leaf_paths(h: &H, prefix: &mut Vec<usize>, out: &mut Vec<Vec<usize>>) {
    let mut kids: Vec<H> = Vec::new();
    h.for_children(&mut |c| kids.push(c.clone()));
    if kids.is_empty() {
        if matches!(h, H::Id(_)) && !prefix.is_empty() {
            out.push(prefix.clone());
        }
        return;
    }
    for (i, k) in kids.iter().enumerate() {
        prefix.push(i);
        id_leaf_paths(k, prefix, out);
        prefix.pop();
    }
}

fn replace_path(h: &H, path: &[usize], new: &H) -> H {
    if path.is_empty() {
        return new.clone();
    }
    let mut kids: Vec<H> = Vec::new();
    h.for_children(&mut |c| kids.push(c.clone()));
    let sub = replace_path(&kids[path[0]], &path[1..], new);
    replace_nth_child(h, path[0], &sub)
}

pub fn run(which: &str, ctx: &Ctx, sink: &mut Sink) {
    rt::open_driver_journal(ctx.opt("journal"));
    let v = Verdicts { which };
    let cli = ctx.opt("cli").map(|s| s.to_string());
    let widths: Vec<Option<usize>> = if ctx.quick { WIDTHS_Q.to_vec() } else { WIDTHS_ALL.to_vec() };
    let mut idx = 0u64;

    if which == "C07" || which == "C08" {
        // ---- exhaustive two-level shapes x widths
        let mut all_shapes = shapes::two_level();
        all_shapes.extend(shapes::wrapped_two_level());
        for sh in all_shapes {
            idx += 1;
            if !ctx.mine(idx) {
                continue;
            }
            let src = print_full(&sh.tree);
            match parse1(&src) {
                Ok(a) if a == sh.tree => {}
                Ok(_) => {
                    sink.obs("shape-self-check-misparsed", json!({"src": src}));
                    continue;
                }
                Err(_) => {
                    sink.count("shape-not-admitted-by-grammar", 1);
                    continue;
                }
            }
            for w in &widths {
                check_stmt(&v, sink, &src, *w, Some((&sh.ctx, &sh.child)), "two-level");
            }
        }
        // ---- the same shapes with one identifier leaf replaced by a string literal that spans lines / holds a
        // carriage return / looks like a comment: a literal's text must come through every layout unchanged
        let awkward: Vec<H> = vec![
            H::Str("cr\r\nlf".to_string()),
            H::Str("two\nlines\n  indented".to_string()),
            H::Str("// no comment".to_string()),
            H::Str("tab\there".to_string()),
            // number literals at the edges of the printer's cases (tiny, subnormal, huge whole, long fraction)
            H::Num(F(1.6e-19)),
            H::Num(F(5e-324)),
            H::Num(F(123456789012345680000.0)),
            H::Num(F(0.1 + 0.2)),
            H::Num(F(1e21)),
            H::Num(F(2.5e-308)),
        ];
        let mut base_shapes = shapes::two_level();
        base_shapes.extend(shapes::wrapped_two_level());
        let step = if ctx.quick { 7 } else { 1 };
        for (si, sh) in base_shapes.iter().enumerate() {
            if si % step != (ctx.seed as usize) % step {
                continue;
            }
            idx += 1;
            if !ctx.mine(idx) {
                continue;
            }
            let mut paths = Vec::new();
            id_leaf_paths(&sh.tree, &mut Vec::new(), &mut paths);
            for (pi, p) in paths.iter().enumerate() {
                let lit = &awkward[(si + pi) % awkward.len()];
                let t = replace_path(&sh.tree, p, lit);
                let src = print_full(&t);
                match parse1(&src) {
                    Ok(a) if a == t => {}
                    _ => {
                        sink.count("string-leaf-shape-not-admitted", 1);
                        continue;
                    }
                }
                for w in [Some(1), Some(20), None] {
                    check_stmt(&v, sink, &src, w, Some((&sh.ctx, if matches!(lit, H::Str(_)) { "string-literal-leaf" } else { "number-literal-leaf" })), "literal-leaf");
                }
            }
        }
        // ---- hand-written layout programs x all widths
        for (name, src) in layout_programs() {
            idx += 1;
            if !ctx.mine(idx) {
                continue;
            }
            for w in WIDTHS_ALL.iter() {
                check_stmt(&v, sink, &src, *w, None, name);
                check_program(&v, sink, &src, *w, name, None, name);
            }
            check_program(&v, sink, &src, None, name, cli.as_deref(), name);
        }
        // ---- operator triples (thorough): precedence-level representatives
        if !ctx.quick {
            let reps = [Op::NAnd, Op::Or, Op::Via, Op::Eq, Op::DLt, Op::Add, Op::Sub, Op::Mul, Op::Div, Op::Pow, Op::Coal];
            for &o1 in &reps {
                for &o2 in &reps {
                    for &o3 in &reps {
                        idx += 1;
                        if !ctx.mine(idx) {
                            continue;
                        }
                        let (a, b, c, d) = (id("a"), id("b"), id("c"), id("d"));
                        let shapes3 = [
                            bin(o1, bin(o2, bin(o3, a.clone(), b.clone()), c.clone()), d.clone()),
                            bin(o1, bin(o2, a.clone(), bin(o3, b.clone(), c.clone())), d.clone()),
                            bin(o1, bin(o2, a.clone(), b.clone()), bin(o3, c.clone(), d.clone())),
                            bin(o1, a.clone(), bin(o2, bin(o3, b.clone(), c.clone()), d.clone())),
                            bin(o1, a.clone(), bin(o2, b.clone(), bin(o3, c.clone(), d.clone()))),
                        ];
                        for t in shapes3.iter() {
                            let src = print_full(t);
                            for w in [Some(1), Some(20), None] {
                                check_stmt(&v, sink, &src, w, None, "triple");
                            }
                        }
                    }
                }
            }
        }
    }

    // ---- random programs (with comments and blank lines), library driver + CLI sample
    let n = match which {
        "C09" => ctx.budget(12_000, 2_000_000),
        _ => ctx.budget(16_000, 2_000_000),
    };
    for i in 0..n {
        if !ctx.mine(i) {
            continue;
        }
        let mut r = Rng::derive(ctx.seed, "fmt-random", i);
        let depth = 2 + r.below(5);
        let ns = 1 + r.below(4);
        let stmts = gen_program(&mut r, ns, depth);
        let w = widths[r.below(widths.len())];
        if which != "C09" {
            // statement level
            for s in &stmts {
                let src = print_min(s);
                check_stmt(&v, sink, &src, w, None, "random");
                // the same statement as a source text full of optional layout
                if i % 2 == 0 {
                    let sp = spacious(s, &mut r);
                    if sp != src && parse1(&sp).map(|t| t == *s).unwrap_or(false) {
                        sink.count("spacious_sources", 1);
                        check_stmt(&v, sink, &sp, w, None, "spacious");
                        if w != Some(20) {
                            check_stmt(&v, sink, &sp, Some(20), None, "spacious");
                        }
                    } else if sp != src {
                        sink.count("spacious_source_not_same_tree", 1);
                    }
                }
            }
            // program level: blank lines + P-class comments (which the formatter keeps)
            let cls = [CClass::P1OwnLineBeforeStmt, CClass::P2StmtEol, CClass::P4ListAfterOpen, CClass::P5ListAfterCommaOwnLine, CClass::P7ListLastItemEol,
                CClass::P8RecAfterOpen, CClass::P10RecBeforeClose, CClass::P12DoAfterOpen, CClass::P13DoBeforeStmt, CClass::P14DoBeforeReturn][r.below(10)];
            let (mut src, _) = if r.chance(1, 2) { inject(&stmts, cls, &mut r, false) } else { (print_program(&stmts, Mode::Min), 0) };
            // 0-5 blank lines between statements
            if r.chance(2, 3) {
                let parts: Vec<&str> = src.split('\n').collect();
                let mut s2 = String::new();
                for (k, p) in parts.iter().enumerate() {
                    s2.push_str(p);
                    if k + 1 < parts.len() {
                        s2.push('\n');
                        // only between top-level statements: a line that starts at column 0 follows
                        if !parts[k + 1].starts_with(' ') && !parts[k + 1].starts_with('}') && !parts[k + 1].starts_with(']') && r.chance(1, 2) {
                            for _ in 0..r.below(6) {
                                s2.push('\n');
                            }
                        }
                    }
                }
                src = s2;
            }
            let use_cli = cli.is_some() && i % 10 == 0;
            check_program(&v, sink, &src, if use_cli { None } else { w }, &format!("random+{:?}", cls), if use_cli { cli.as_deref() } else { None }, "random-program");
            // evaluation equivalence on closed programs (C07 second oracle)
            if which == "C07" && i % 4 == 0 {
                eval_equiv(sink, &stmts, w);
            }
        }
        // comment-injected programs: all of them for C09; one in four also for C07 / C08 (a statement kept as written
        // because its comments have no slot in the tree must still be the same program, and stay put on a second pass)
        if which == "C09" || i % 4 == 1 {
            let cls = CCLASSES[(i as usize / ctx.shard_n as usize) % CCLASSES.len()];
            let every = r.chance(1, 2);
            let (src, ncom) = inject(&stmts, cls, &mut r, every);
            if ncom == 0 {
                continue;
            }
            let use_cli = cli.is_some() && (i / ctx.shard_n) % 3 == 0;
            for ww in [w, None] {
                check_program(&v, sink, &src, ww, &cls.name(), if ww.is_none() && use_cli { cli.as_deref() } else { None }, "inject");
            }
        }
    }

    {
        // ---- every class x a fixed set of statement kinds x widths {20, 80} (judged by all three properties)
        let fixed: Vec<Vec<H>> = fixed_programs();
        for (pi, prog) in fixed.iter().enumerate() {
            for (ci, cls) in CCLASSES.iter().enumerate() {
                idx += 1;
                if !ctx.mine(idx) {
                    continue;
                }
                let mut r = Rng::derive(ctx.seed, "c09-fixed", (pi * 100 + ci) as u64);
                let (src, ncom) = inject(prog, *cls, &mut r, true);
                if ncom == 0 {
                    continue;
                }
                for w in [Some(20), Some(80)] {
                    check_program(&v, sink, &src, w, &cls.name(), None, "fixed");
                }
                check_program(&v, sink, &src, None, &cls.name(), cli.as_deref(), "fixed");
            }
        }
        // ---- multi-class random decorations
        let n2 = ctx.budget(3000, 500_000);
        for i in 0..n2 {
            if !ctx.mine(i) {
                continue;
            }
            let mut r = Rng::derive(ctx.seed, "c09-multi", i);
            let ns = 2 + r.below(3);
            let stmts = gen_program(&mut r, ns, 3);
            // combine two P classes by injecting one, re-parsing is not possible (comments are not in H),
            // so combine statement-level classes textually with an in-expression class
            let inner = [CClass::P4ListAfterOpen, CClass::P5ListAfterCommaOwnLine, CClass::P6ListBeforeClose, CClass::P7ListLastItemEol, CClass::P8RecAfterOpen,
                CClass::P9RecAfterCommaOwnLine, CClass::P10RecBeforeClose, CClass::P11RecLastItemEol, CClass::P12DoAfterOpen, CClass::P13DoBeforeStmt,
                CClass::P14DoBeforeReturn][r.below(11)];
            let second = if r.chance(1, 2) {
                Some([CClass::Q1CallArgs, CClass::Q2AfterInfixOp, CClass::Q3BeforeInfixOp, CClass::Q4CondParts, CClass::Q5AfterArrow, CClass::Q6InsideParens, CClass::Q8AfterRecColon][r.below(7)])
            } else {
                None
            };
            let (src, _) = inject_two(&stmts, inner, second, &mut r, second.is_some());
            let lines: Vec<String> = src.split('\n').map(|s| s.to_string()).collect();
            let mut out = String::new();
            for (k, l) in lines.iter().enumerate() {
                if !l.starts_with(' ') && !l.starts_with('}') && !l.starts_with(']') && !l.starts_with("//") && r.chance(1, 3) {
                    out.push_str(&format!("// above {}\n", k));
                }
                out.push_str(l);
                // an end-of-line comment (sometimes far longer than any width) after the last line of a statement that
                // may also carry comments inside
                let starts_stmt = |t: &str| !t.starts_with(' ') && !t.starts_with('}') && !t.starts_with(']') && !t.is_empty();
                let last_of_stmt = !l.starts_with("//") && !l.is_empty() && (k + 1 == lines.len() || starts_stmt(&lines[k + 1]));
                if last_of_stmt && r.chance(1, 3) {
                    let pad = "x".repeat([0usize, 10, 60, 100][r.below(4)]);
                    out.push_str(&format!("  // after {} {}", k, pad));
                }
                if k + 1 < lines.len() {
                    out.push('\n');
                }
            }
            if scan_comments(&out).is_empty() {
                continue;
            }
            check_program(&v, sink, &out, None, &format!("multi:{}+P1+P2", inner.name()), if i % 2 == 0 { cli.as_deref() } else { None }, "multi");
        }
    }
}

pub(crate) fn fixed_programs() -> Vec<Vec<H>> {
    let n = |x: f64| H::Num(F(x));
    vec![
        // containers without items (a comment is then the only thing between the brackets)
        vec![assign("e", H::List(vec![])), assign("r0", H::Rec(vec![])), call(id("f"), vec![H::Rec(vec![]), H::List(vec![])])],
        vec![assign("nest", H::List(vec![H::List(vec![]), H::Rec(vec![]), H::Rec(vec![(Key::Static("k".into()), H::List(vec![]))])]))],
        vec![assign("a", H::List(vec![n(1.0), n(2.0), n(3.0)]))],
        vec![assign("r", H::Rec(vec![(Key::Static("k".into()), n(1.0)), (Key::Static("m".into()), st("v"))]))],
        vec![assign("d", H::Do(vec![assign("t", n(1.0)), assign("u", bin(Op::Add, id("t"), n(2.0)))], Box::new(bin(Op::Mul, id("u"), n(3.0)))))],
        vec![assign("f", lam1("x", bin(Op::Add, id("x"), n(1.0)))), call(id("f"), vec![n(2.0), n(3.0)])],
        vec![assign("c", H::Cond(Box::new(bin(Op::Gt, n(1.0), n(2.0))), Box::new(st("y")), Box::new(st("n"))))],
        vec![assign("s", bin(Op::Add, bin(Op::Mul, n(1.0), n(2.0)), bin(Op::NAnd, H::Bool(true), H::Bool(false))))],
        vec![H::Output(Box::new(assign("o", H::List(vec![H::Rec(vec![(Key::Static("k".into()), H::List(vec![n(1.0), n(2.0)]))]), n(3.0)]))))],
        vec![assign("p", call(bi("max"), vec![H::List(vec![n(1.0), n(2.0)]), ])), assign("q", bin(Op::Via, H::List(vec![n(1.0), n(2.0)]), lam1("x", H::Do(vec![assign("y", id("x"))], Box::new(id("y"))))))],
        vec![assign("g", H::List(vec![H::List(vec![n(1.0), n(2.0)]), H::Rec(vec![(Key::Static("a".into()), H::List(vec![n(3.0)]))])])), id("g")],
        vec![assign("w", H::Index(Box::new(H::List(vec![n(1.0), n(2.0)])), Box::new(n(0.0)))), assign("pa", bin(Op::Mul, bin(Op::Add, n(1.0), n(2.0)), n(3.0)))],
    ]
}

/// evaluating the source and the formatted source gives the same results (closed programs)
fn eval_equiv(sink: &mut Sink, stmts: &[H], w: Option<usize>) {
    let src = print_program(stmts, Mode::Min);
    let Ok(f) = format_source_driver(&src, w) else { return };
    let s1 = Sess::new();
    let s2 = Sess::new();
    let (Ok(o1), Ok(o2)) = (s1.run(&src, false), s2.run(&f, false)) else {
        return;
    };
    sink.count("eval_equivalence_programs", 1);
    let r1: Vec<rt::ROut> = o1.iter().map(|o| s1.rout(&o.out)).collect();
    let r2: Vec<rt::ROut> = o2.iter().map(|o| s2.rout(&o.out)).collect();
    let same = r1.len() == r2.len() && r1.iter().zip(r2.iter()).all(|(a, b)| a.agrees(b));
    if !same {
        sink.viol("evaluation-differs", "source and formatted source evaluate differently", json!({"source": src, "formatted": f, "width": w,
            "results": r1.iter().map(|x| x.show()).collect::<Vec<_>>(), "results_formatted": r2.iter().map(|x| x.show()).collect::<Vec<_>>()}));
    }
}
