//! C04 - closures capture definition-time values; calls are call-site independent; argument binding.

use crate::Ctx;
use crate::model;
use crate::out::Sink;
use crate::gens::{self, Gen, GenCfg, Ty};
use crate::hexpr::{assign, lam1, print_min};
use crate::rng::Rng;
use crate::rt::{RVal, ROut, Sess};
use serde_json::json;

/// A closure definition: statements that end by binding `f`, the names it captures, its parameter
/// name, and the model of its result on a numeric argument.
struct Def {
    class: &'static str,
    setup: Vec<String>,
    captured: Vec<&'static str>,
    params: Vec<&'static str>,
    expect: Box<dyn Fn(f64) -> RVal>,
}

fn n(x: f64) -> RVal {
    RVal::num(x)
}

fn defs(k: f64) -> Vec<Def> {
    let ks = format!("{}", k);
    vec![
        Def { class: "top-level-captures-number", setup: vec![format!("k = {}", ks), "f = x => x + k".into()], captured: vec!["k"], params: vec!["x"], expect: Box::new(move |a| n(a + k)) },
        Def { class: "top-level-captures-two", setup: vec![format!("k = {}", ks), "m = 10".into(), "f = x => x * m + k".into()], captured: vec!["k", "m"], params: vec!["x"], expect: Box::new(move |a| n(a * 10.0 + k)) },
        Def { class: "captures-list-and-record", setup: vec![format!("k = [{}, 2]", ks), "m = {a: 5}".into(), "f = x => x + k[0] + m.a".into()], captured: vec!["k", "m"], params: vec!["x"], expect: Box::new(move |a| n(a + k + 5.0)) },
        Def { class: "captures-string", setup: vec!["k = \"s\"".into(), "f = x => k + to_string(x)".into()], captured: vec!["k"], params: vec!["x"], expect: Box::new(|a| RVal::Str(format!("s{}", a))) },
        Def { class: "defined-in-do-block", setup: vec![format!("f = do {{\n k = {}\n return x => x + k\n}}", ks)], captured: vec!["k"], params: vec!["x"], expect: Box::new(move |a| n(a + k)) },
        Def { class: "do-block-shadowing-outer", setup: vec!["k = 1000".into(), format!("f = do {{\n k = {}\n return x => x + k\n}}", ks)], captured: vec!["k"], params: vec!["x"], expect: Box::new(move |a| n(a + k)) },
        Def { class: "returned-from-function", setup: vec!["mk = k => (x => x + k)".into(), format!("f = mk({})", ks)], captured: vec!["k"], params: vec!["x"], expect: Box::new(move |a| n(a + k)) },
        Def { class: "curried", setup: vec!["add = k => x => k + x".into(), format!("f = add({})", ks)], captured: vec!["k"], params: vec!["x"], expect: Box::new(move |a| n(a + k)) },
        Def { class: "captures-closure", setup: vec![format!("k = {}", ks), "g = y => y * k".into(), "f = x => g(x) + 1".into()], captured: vec!["g", "k"], params: vec!["x"], expect: Box::new(move |a| n(a * k + 1.0)) },
        Def { class: "captures-closure-two-levels", setup: vec![format!("k = {}", ks), "g = y => y + k".into(), "h = z => g(z) * 2".into(), "f = x => h(x) - 1".into()], captured: vec!["h", "g", "k"], params: vec!["x"], expect: Box::new(move |a| n((a + k) * 2.0 - 1.0)) },
        Def { class: "do-block-local-named-like-captured-function", setup: vec!["g = x => x + 1".into(), format!("f = do {{\n g = y => g(y) * {}\n return g\n}}", ks)], captured: vec!["g"], params: vec!["y"], expect: Box::new(move |a| n((a + 1.0) * k)) },
        Def { class: "do-block-local-named-like-captured-function-used-under-that-name", setup: vec!["g = x => x + 1".into(), format!("f = do {{\n g = y => g(y) * {}\n return x => g(x)\n}}", ks)], captured: vec!["g"], params: vec!["x"], expect: Box::new(move |a| n((a + 1.0) * k)) },
        Def { class: "do-local-rebinding-a-captured-name-from-itself", setup: vec![format!("k = {}", ks), "f = x => do {\n k = k + x\n return k * 2\n}".into()], captured: vec!["k"], params: vec!["x"], expect: Box::new(move |a| n((k + a) * 2.0)) },
        Def { class: "lambda-parameter-named-like-captured-used-after", setup: vec![format!("k = {}", ks), "f = x => (k => k + 1)(x) + k".into()], captured: vec!["k"], params: vec!["x"], expect: Box::new(move |a| n(a + 1.0 + k)) },
        Def { class: "recursive-through-own-name", setup: vec!["f = x => if x <= 0 then 0 else x + f(x - 1)".into()], captured: vec![], params: vec!["x"], expect: Box::new(|a| n((1..=(a as i64).max(0)).map(|v| v as f64).fold(0.0, |s, v| s + v))) },
        // a name that is NOT bound at definition (the function's own name, a late-bound helper) mentioned before the captured ones
        Def { class: "own-name-mentioned-before-captured", setup: vec![format!("k = {}", ks), "f = x => if x <= 0 then 0 else f(x - 1) * 0 + x + k".into()], captured: vec!["k"], params: vec!["x"], expect: Box::new(move |a| if a <= 0.0 { n(0.0) } else { n(a + k) }) },
        Def { class: "late-bound-name-mentioned-before-captured", setup: vec![format!("k = {}", ks), "m = 3".into(), "f = x => (if x < -5 then late_helper(x) else 0) + x * m + k".into()], captured: vec!["k", "m"], params: vec!["x"], expect: Box::new(move |a| n(a * 3.0 + k)) },
        // the function re-enters itself through frames whose parameter / do-local / callback parameter reuse the captured name
        Def { class: "reentered-through-a-parameter-named-like-captured", setup: vec![format!("k = {}", ks), "f = x => if x <= 0 then k else (k => f(x - 1))(100)".into()], captured: vec!["k"], params: vec!["x"], expect: Box::new(move |_| n(k)) },
        Def { class: "reentered-through-a-do-local-named-like-captured", setup: vec![format!("k = {}", ks), "f = x => if x <= 0 then k else [k, do {\n k = 100\n return f(x - 1)\n}][1]".into()], captured: vec!["k"], params: vec!["x"], expect: Box::new(move |_| n(k)) },
        Def { class: "reentered-through-a-callback-parameter-named-like-captured", setup: vec![format!("k = {}", ks), "f = x => if x <= 0 then k else ([x - 1] via (k => f(k)))[0]".into()], captured: vec!["k"], params: vec!["x"], expect: Box::new(move |_| n(k)) },
        Def { class: "captured-in-nested-lambda", setup: vec![format!("k = {}", ks), "f = x => ([x] via (y => y + k))[0]".into()], captured: vec!["k"], params: vec!["x"], expect: Box::new(move |a| n(a + k)) },
        Def { class: "captured-in-conditional-and-do", setup: vec![format!("k = {}", ks), "m = 2".into(), "f = x => if x > 100 then m else do {\n t = x * m\n return t + k\n}".into()], captured: vec!["k", "m"], params: vec!["x"], expect: Box::new(move |a| if a > 100.0 { n(2.0) } else { n(a * 2.0 + k) }) },
        Def { class: "captured-in-record-shorthand-and-spread", setup: vec![format!("k = {}", ks), "m = [1, 2]".into(), "f = x => [{k}.k + x, ...m]".into()], captured: vec!["k", "m"], params: vec!["x"], expect: Box::new(move |a| RVal::List(vec![n(k + a), n(1.0), n(2.0)])) },
        Def { class: "captured-as-call-target-and-index", setup: vec!["k = [10, 20, 30]".into(), "m = abs".into(), "f = x => m(k[x] - 100)".into()], captured: vec!["k", "m"], params: vec!["x"], expect: Box::new(|a| n((([10.0, 20.0, 30.0][(a as usize).min(2)]) - 100.0f64).abs())) },
        Def { class: "optional-parameter", setup: vec![format!("k = {}", ks), "f = (x, o?) => x + k + (o ?? 0)".into()], captured: vec!["k"], params: vec!["x", "o"], expect: Box::new(move |a| n(a + k)) },
    ]
}

/// Calling contexts: each returns statements to run and the expression whose value must be `v0`,
/// plus how the expected value is wrapped (e.g. a one-element list for `via`).
struct Ctxt {
    class: String,
    stmts: Vec<String>,
    expr: String,
    wrap: fn(RVal) -> RVal,
}

fn ident(v: RVal) -> RVal {
    v
}
fn in_list(v: RVal) -> RVal {
    RVal::List(vec![v])
}

fn contexts(arg: f64, collide: &str, uid: usize) -> Vec<Ctxt> {
    let a = format!("{}", arg);
    let c = collide;
    let mk = |class: &str, stmts: Vec<String>, expr: String, wrap: fn(RVal) -> RVal| Ctxt { class: class.to_string(), stmts, expr, wrap };
    vec![
        mk("top-level", vec![], format!("f({})", a), ident),
        mk("colliding-parameter-immediate", vec![], format!("(({}) => f({}))(999)", c, a), ident),
        mk("colliding-do-local", vec![], format!("do {{\n {} = 999\n return f({})\n}}", c, a), ident),
        mk("via-callback", vec![], format!("[{}] via f", a), in_list),
        mk("map-callback", vec![], format!("map([{}], f)", a), in_list),
        mk("where-callback-wrapper", vec![], format!("[{}] via (z => f(z))", a), in_list),
        mk("reduce-callback", vec![], format!("reduce([{}], (acc, z) => f(z), 0)", a), ident),
        mk("into", vec![], format!("{} into f", a), ident),
        mk("stored-function-defined-later", vec![format!("h{} = z => f(z)", uid)], format!("h{}({})", uid, a), ident),
        mk("stored-function-colliding-parameter", vec![format!("hc{} = {} => f({})", uid, c, a)], format!("hc{}(999)", uid), ident),
        mk("after-failed-rebinding", vec![format!("{} = 999", c)], format!("f({})", a), ident),
        mk("after-aliasing", vec![format!("alias{} = f", uid)], format!("alias{}({})", uid, a), ident),
        mk("original-after-aliasing", vec![format!("alias_b{} = f", uid)], format!("f({})", a), ident),
        mk("nested-function-with-shadowing-do", vec![format!("w{} = () => do {{\n {} = 999\n return f({})\n}}", uid, c, a)], format!("w{}()", uid), ident),
        mk("via-inside-shadowing-do", vec![], format!("do {{\n {} = 5\n return [{}] via f\n}}", c, a), in_list),
        mk("callback-with-colliding-parameter", vec![], format!("[999] via ({} => f({}))", c, a), in_list),
        mk("in-list-and-record", vec![], format!("{{r: [f({})]}}.r[0]", a), ident),
        mk("conditional-branch", vec![], format!("if true then f({}) else 0", a), ident),
        mk("sort_by-key", vec![], format!("sort_by([{}], f)", a), |_v| RVal::Null),
    ]
}

/// spellings for the captured name `k`: plain, and names that begin with / contain a reserved word, a predefined name or a
/// built-in's name (capture must depend on the whole name, never on a prefix of it)
const SPELLINGS: [&str; 24] = [
    "k", "info", "inflation", "inf_rate", "infinity_x", "constants_v", "inputs_2", "iffy", "thenk", "donut", "nullable", "truex", "notify", "android", "order", "via_k", "outputs",
    "returned", "K", "_k", "k9", "k_", "summary", "mapped",
];

/// `text` with the whole word `from` replaced by `to`
fn rename_word(text: &str, from: &str, to: &str) -> String {
    let cs: Vec<char> = text.chars().collect();
    let f: Vec<char> = from.chars().collect();
    let is_w = |c: char| c.is_alphanumeric() || c == '_';
    let mut out = String::new();
    let mut i = 0;
    while i < cs.len() {
        if cs[i..].starts_with(&f) && (i == 0 || !is_w(cs[i - 1])) && (i + f.len() >= cs.len() || !is_w(cs[i + f.len()])) && (i == 0 || cs[i - 1] != '"') {
            out.push_str(to);
            i += f.len();
        } else {
            out.push(cs[i]);
            i += 1;
        }
    }
    out
}

fn part_call_sites(ctx: &Ctx, sink: &mut Sink) {
    let rounds = ctx.budget(2500, 300_000);
    for i in 0..rounds {
        if !ctx.mine(i) {
            continue;
        }
        let mut r = Rng::derive(ctx.seed, "c04", i);
        let k = r.range(1, 9) as f64;
        let all = defs(k);
        let di = (i as usize / ctx.shard_n as usize) % all.len();
        // every third round the captured name `k` is spelled differently (definition, colliding call sites and all)
        let spelling = if i % 3 == 2 { SPELLINGS[(i as usize / (3 * ctx.shard_n as usize * all.len()).max(1) + i as usize / 3) % SPELLINGS.len()] } else { "k" };
        let mut all = all;
        if spelling != "k" {
            let d = &mut all[di];
            d.setup = d.setup.iter().map(|t| rename_word(t, "k", spelling)).collect();
            d.captured = d.captured.iter().map(|c| if *c == "k" { spelling } else { *c }).collect();
            d.class = d.class;
        }
        let d = &all[di];
        let arg = if d.class == "captured-as-call-target-and-index" { r.below(3) as f64 } else { r.range(0, 12) as f64 };
        let expected = (d.expect)(arg);
        // colliding names: captured names, parameter names, own binding name
        let mut collide: Vec<&str> = d.captured.clone();
        collide.extend(d.params.iter().cloned());
        collide.push("unrelated_q");
        for (ci, cname) in collide.iter().enumerate() {
            let sess = Sess::new();
            let mut ok = true;
            for s in &d.setup {
                if !sess.eval(s).is_ok() {
                    ok = false;
                }
            }
            if !ok {
                sink.viol(&format!("definition-fails def={}", d.class), "a closed function definition fails", json!({"setup": d.setup}));
                break;
            }
            let v0 = sess.rout(&sess.eval(&format!("f({})", arg)));
            let nontrivial = matches!(v0, ROut::Ok(_));
            if v0 != ROut::Ok(expected.clone()) {
                sink.case(&format!("c04|{}|{}|{}", d.class, arg, cname), nontrivial);
                sink.viol(
                    &format!("captured-value-wrong def={}", d.class),
                    "a call right after the definition does not see the values captured at definition time",
                    json!({"setup": d.setup, "call": format!("f({})", arg), "got": v0.show(), "expected": expected.show()}),
                );
                break;
            }
            for (xi, c) in contexts(arg, cname, ci).iter().enumerate() {
                // a do-block local / parameter named like a built-in or `f` itself would hide f: skip own name
                let mut stmt_ok = true;
                for s in &c.stmts {
                    let o = sess.eval(s);
                    // the failed rebinding attempt is expected to fail
                    if c.class != "after-failed-rebinding" && !o.is_ok() {
                        stmt_ok = false;
                    }
                }
                if !stmt_ok {
                    continue;
                }
                let got = sess.rout(&sess.eval(&c.expr));
                sink.case(&format!("c04|{}|{}|{}|{}", d.class, arg, cname, c.class), nontrivial && *cname != "unrelated_q");
                if c.class == "sort_by-key" {
                    // value = the list itself; only "no failure" is implied
                    if !matches!(got, ROut::Ok(_)) {
                        sink.viol(&format!("call-site def={} context={}", d.class, c.class), "the function fails as a sort_by key although it succeeds elsewhere", json!({"setup": d.setup, "expr": c.expr, "got": got.show()}));
                    }
                    continue;
                }
                let want = ROut::Ok((c.wrap)(expected.clone()));
                if got != want {
                    sink.viol(
                        &format!("call-site def={} context={}", d.class, c.class),
                        "a closed function returns a different result from this call site",
                        json!({"setup": d.setup, "context_statements": c.stmts, "expr": c.expr, "colliding_name": cname, "got": got.show(), "expected": want.show(), "at_definition": v0.show()}),
                    );
                }
                if sink.want_sample() && xi == 2 && nontrivial {
                    sink.sample(json!({"definition": d.setup, "context": c.expr, "colliding_name": cname, "result": got.show()}));
                }
            }
        }
    }
}

/// Random closed functions over random captured bindings (locals and parameters may shadow the
/// captured names): the value right after the definition is the reference (model-free); every
/// calling context that rebinds a captured / parameter name must give the identical value.
fn part_random_closures(ctx: &Ctx, sink: &mut Sink) {
    let n = ctx.budget(20_000, 3_000_000);
    for i in 0..n {
        if !ctx.mine(i) {
            continue;
        }
        let mut r = Rng::derive(ctx.seed, "c04-rand", i);
        let sess = Sess::new();
        let mut sc = gens::Scope::new();
        let mut setup: Vec<String> = Vec::new();
        let nbind = 1 + r.below(5);
        for k in 0..nbind {
            let t = *r.pick(&[Ty::Num, Ty::Num, Ty::Num, Ty::Str, Ty::LNum, Ty::Rec, Ty::FnNN]);
            let e = {
                let mut g = Gen::new(&mut r, GenCfg { shadowing_permille: 300, ..GenCfg::default() });
                g.expr(t, 2, &mut sc)
            };
            let name = format!("cv{}", k);
            let stmt = print_min(&assign(&name, e));
            if sess.eval(&stmt).is_ok() {
                sc.vars.push((name, t));
                setup.push(stmt);
            }
        }
        // half of the cases also have a top-level binding named like the parameter
        if r.chance(1, 2) {
            let stmt = format!("x = {}", 40 + r.below(9));
            if sess.eval(&stmt).is_ok() {
                setup.push(stmt);
            }
        }
        let depth = 2 + r.below(5);
        let rt = *r.pick(&[Ty::Num, Ty::Num, Ty::LNum, Ty::Rec, Ty::Bool]);
        let body = {
            sc.vars.push(("x".into(), Ty::Num));
            let mut g = Gen::new(&mut r, GenCfg { shadowing_permille: 400, ..GenCfg::default() });
            let b = g.expr(rt, depth, &mut sc);
            sc.vars.pop();
            b
        };
        // a third of the bodies start by rebinding a captured numeric name from itself inside a
        // do-block (the right-hand side must still see the captured value); that name is then the
        // colliding one
        let num_caps: Vec<String> = sc.of_ty(Ty::Num).iter().map(|s| s.to_string()).collect();
        let mut forced: Option<String> = None;
        let body = if !num_caps.is_empty() && r.chance(1, 3) {
            let c = num_caps[r.below(num_caps.len())].clone();
            forced = Some(c.clone());
            crate::hexpr::H::Do(vec![assign(&c, crate::hexpr::bin(crate::hexpr::Op::Add, crate::hexpr::id(&c), crate::hexpr::id("x")))], Box::new(body))
        } else {
            body
        };
        let def = print_min(&assign("f", lam1("x", body)));
        if !sess.eval(&def).is_ok() {
            continue;
        }
        let arg = r.range(0, 9) as f64;
        let v0 = sess.rout(&sess.eval(&format!("f({})", arg)));
        let mut collide: Vec<String> = sc.vars.iter().map(|(n, _)| n.clone()).collect();
        collide.push("x".into());
        let cname = forced.unwrap_or_else(|| collide[r.below(collide.len())].clone());
        let nontrivial = matches!(v0, ROut::Ok(_)) && def.contains("cv");
        sink.case(&format!("c04r|{}|{}|{}", setup.join(";"), def, cname), nontrivial);
        if !matches!(v0, ROut::Ok(_)) {
            continue;
        }
        let ROut::Ok(v0v) = &v0 else { continue };
        for (xi, c) in contexts(arg, &cname, i as usize).iter().enumerate() {
            if c.class == "after-failed-rebinding" || c.class == "sort_by-key" {
                continue;
            }
            let mut ok = true;
            for s in &c.stmts {
                if !sess.eval(s).is_ok() {
                    ok = false;
                }
            }
            if !ok {
                continue;
            }
            let got = sess.rout(&sess.eval(&c.expr));
            let want = ROut::Ok((c.wrap)(v0v.clone()));
            // functions as results are compared structurally by RVal (same heap, same definition)
            if got != want {
                sink.viol(
                    &format!("call-site random-closure context={}", c.class),
                    "a closed function returns a different result from this call site",
                    json!({"setup": setup, "definition": def, "context_statements": c.stmts, "expr": c.expr, "colliding_name": cname, "got": got.show(), "at_definition": v0.show()}),
                );
                break;
            }
            if sink.want_sample() && xi == 1 && nontrivial {
                sink.sample(json!({"setup": setup, "definition": def, "context": c.expr, "colliding_name": cname, "result": got.show()}));
            }
        }
    }
}

fn part_param_shadowing(ctx: &Ctx, sink: &mut Sink) {
    if ctx.shard_i != 0 {
        return;
    }
    // (setup, expr, expected)
    let cases: Vec<(Vec<&str>, &str, RVal)> = vec![
        (vec!["k = 3", "f = k => k + 1"], "f(10)", n(11.0)),
        (vec!["k = 3", "g = x => x + k", "f = g => g + 1"], "f(10)", n(11.0)),
        (vec!["f = f => f + 1"], "f(1)", n(2.0)),
        (vec!["f = (f, g) => [f, g]"], "f(1, 2)", RVal::List(vec![n(1.0), n(2.0)])),
        (vec!["g = inputs => inputs + 1"], "g(1)", n(2.0)),
        (vec!["k = 3", "f = x => (k => k * 2)(x) + k"], "f(5)", n(13.0)),
        (vec!["k = 3", "f = x => do {\n k = x * 2\n return k\n} + k"], "f(5)", n(13.0)),
        (vec!["k = 3", "outer = k => (x => x + k)", "f = outer(100)"], "f(1)", n(101.0)),
        (vec!["x = 7", "f = x => x"], "f(1)", n(1.0)),
        (vec!["x = 7", "f = (x?) => x"], "f()", RVal::Null),
        (vec!["x = 7", "f = (...x) => x"], "f()", RVal::List(vec![])),
        (vec!["x = 7", "f = y => x", "h = x => f(0)"], "h(100)", n(7.0)),
        (vec!["x = 7", "f = y => x"], "do {\n x = 100\n return f(0)\n}", n(7.0)),
    ];
    for (setup, expr, exp) in cases {
        let sess = Sess::new();
        for s in &setup {
            let _ = sess.eval(s);
        }
        let got = sess.rout(&sess.eval(expr));
        sink.case(&format!("shadow|{:?}|{}", setup, expr), true);
        if got != ROut::Ok(exp.clone()) {
            sink.viol("parameter-shadowing", "a parameter / captured value does not take precedence as documented", json!({"setup": setup, "expr": expr, "got": got.show(), "expected": exp.show()}));
        }
    }
}

fn part_arg_binding(ctx: &Ctx, sink: &mut Sink) {
    let mut idx = 0u64;
    for req in 0..=3usize {
        for opt in 0..=3usize {
            for rest in [false, true] {
                let mut params: Vec<String> = Vec::new();
                let mut names: Vec<String> = Vec::new();
                for i in 0..req {
                    params.push(format!("r{}", i));
                    names.push(format!("r{}", i));
                }
                for i in 0..opt {
                    params.push(format!("o{}?", i));
                    names.push(format!("o{}", i));
                }
                if rest {
                    params.push("...rs".to_string());
                    names.push("rs".to_string());
                }
                let nparams = req + opt + rest as usize;
                let def = if nparams == 1 && req == 1 { format!("fn_ = {} => [{}]", params[0], names.join(", ")) } else { format!("fn_ = ({}) => [{}]", params.join(", "), names.join(", ")) };
                for argc in 0..=(nparams + 3) {
                    idx += 1;
                    if !ctx.mine(idx) {
                        continue;
                    }
                    let sess = Sess::new();
                    let d = sess.eval(&def);
                    if !d.is_ok() {
                        sink.viol("arg-binding definition-rejected", "a parameter list of the documented shape is rejected", json!({"definition": def, "out": d.msg()}));
                        continue;
                    }
                    let args: Vec<String> = (0..argc).map(|i| i.to_string()).collect();
                    let forms = [
                        format!("fn_({})", args.join(", ")),
                        format!("fn_(...[{}])", args.join(", ")),
                    ];
                    let exp = model::bind_args(req, opt, rest, argc);
                    for (fi, call) in forms.iter().enumerate() {
                        let got = sess.rout(&sess.eval(call));
                        sink.case(&format!("bind|{}|{}|{}|{}|{}", req, opt, rest, argc, fi), true);
                        let ok = match (&exp, &got) {
                            (Some(l), ROut::Ok(g)) => *g == RVal::List(l.clone()),
                            (None, ROut::Err(_)) => true,
                            _ => false,
                        };
                        if !ok {
                            sink.viol(
                                &format!("arg-binding req={} opt={} rest={} argc={}", req, opt, rest, argc),
                                "positional argument binding differs from: required must be supplied, optional default to null, rest collects the remainder, any other count is an error",
                                json!({"definition": def, "call": call, "got": got.show(), "expected": exp.as_ref().map(|l| RVal::List(l.clone()).show()).unwrap_or("error".into())}),
                            );
                        }
                        if sink.want_sample() && argc == nparams + 1 && rest {
                            sink.sample(json!({"definition": def, "call": call, "result": got.show()}));
                        }
                    }
                    // arity() built-in and typeof agree with the shape
                    let ar = sess.rout(&sess.eval("arity(fn_)"));
                    if ar != ROut::Ok(n(req as f64)) {
                        sink.obs("arity-builtin", json!({"definition": def, "arity": ar.show()}));
                    }
                }
            }
        }
    }
}

/// Sibling closures: several functions made by ONE factory (same parameters, same body, different captured values) used
/// side by side. Wherever they are called - one after the other, as the functions of a list-via-list application, stored in
/// a list / record, passed to map in turn - each sees its own captured values.
fn part_siblings(ctx: &Ctx, sink: &mut Sink) {
    let factories: [(&str, &str); 6] = [
        ("adds-captured", "k => (x => x + k)"),
        ("captured-in-list", "k => (x => [x, k])"),
        ("two-level", "k => (x => (y => y * k)(x) + k)"),
        ("do-block", "k => (x => do {\n t = x * k\n return t + k\n})"),
        ("two-captures", "(k, m?) => (x => [x, k, m])"),
        ("captures-function", "k => (x => (q => q + k)(x))"),
    ];
    let n = ctx.budget(600, 20_000);
    for i in 0..n {
        if !ctx.mine(i) {
            continue;
        }
        let mut r = Rng::derive(ctx.seed, "c04-siblings", i);
        let (fname, fsrc) = factories[(i as usize / ctx.shard_n as usize) % factories.len()];
        let cnt = 2 + r.below(4);
        let caps: Vec<i64> = (0..cnt).map(|j| (j as i64 + 1) * 10 + r.range(0, 5)).collect();
        let args: Vec<i64> = (0..cnt).map(|_| r.range(0, 9)).collect();
        let sess = Sess::new();
        if !sess.eval(&format!("mk = {}", fsrc)).is_ok() {
            continue;
        }
        let _ = sess.eval(&format!("fs = [{}]", caps.iter().map(|c| format!("mk({})", c)).collect::<Vec<_>>().join(", ")));
        let _ = sess.eval(&format!("xs = [{}]", args.iter().map(|a| a.to_string()).collect::<Vec<_>>().join(", ")));
        // reference: each function made and called on its own, in a session of its own
        let reference: Vec<ROut> = caps
            .iter()
            .zip(args.iter())
            .map(|(c, a)| {
                let s2 = Sess::new();
                let _ = s2.eval(&format!("mk = {}", fsrc));
                s2.rout(&s2.eval(&format!("mk({})({})", c, a)))
            })
            .collect();
        let expected = if reference.iter().all(|o| matches!(o, ROut::Ok(_))) {
            ROut::Ok(RVal::List(reference.iter().map(|o| if let ROut::Ok(v) = o { v.clone() } else { RVal::Null }).collect()))
        } else {
            continue;
        };
        sink.case(&format!("siblings|{}|{:?}|{:?}", fname, caps, args), true);
        let idxs: Vec<String> = (0..cnt).map(|j| j.to_string()).collect();
        let forms: Vec<(&str, String)> = vec![
            ("list-via-list", "xs via fs".to_string()),
            ("indexed-calls", format!("[{}]", idxs.iter().map(|j| format!("fs[{}](xs[{}])", j, j)).collect::<Vec<_>>().join(", "))),
            ("zip-then-apply", "zip(fs, xs) via (p => p[0](p[1]))".to_string()),
            ("map-over-functions", "map(fs, (g, j) => g(xs[j]))".to_string()),
            ("into-each", format!("[{}]", idxs.iter().map(|j| format!("xs[{}] into fs[{}]", j, j)).collect::<Vec<_>>().join(", "))),
            ("single-via-each", format!("[{}]", idxs.iter().map(|j| format!("([xs[{}]] via fs[{}])[0]", j, j)).collect::<Vec<_>>().join(", "))),
            ("reversed-order-calls", format!("reverse([{}])", idxs.iter().rev().map(|j| format!("fs[{}](xs[{}])", j, j)).collect::<Vec<_>>().join(", "))),
        ];
        for (form, src) in forms {
            let got = sess.rout(&sess.eval(&src));
            if !got.agrees(&expected) {
                sink.viol(
                    &format!("sibling-closures form={} factory={}", form, fname),
                    "closures made by one factory with different captured values do not each see their own values at this call site",
                    json!({"factory": fsrc, "captured": caps, "arguments": args, "expression": src, "got": got.show(), "expected": expected.show()}),
                );
            }
        }
    }
}

/// A key function handed to sort_by is the same function as when it is called on the element directly: optional parameters
/// it does not receive are null, a rest parameter is empty, and a captured name shadowed by a parameter stays shadowed.
fn part_sort_by_keys(ctx: &Ctx, sink: &mut Sink) {
    if ctx.shard_i != 0 {
        return;
    }
    let keys = [
        "key = (x, bias?) => if bias == null then x else 0 - x",
        "key = (x, ...more) => if len(more) == 0 then x else 0 - x",
        "key = (x, bias?, ...more) => if bias == null and len(more) == 0 then x else 0 - x",
        "key = (x, bias?) => [bias, x]",
        "key = (x, ...more) => [len(more), more, x]",
        "key = (x, bias?) => x + (bias ?? 0) * -1000",
        "key = x => x + bias",
        "key = (x) => x",
    ];
    let lists = ["[3, 1, 2]", "[5, 4, 3, 2, 1, 0]", "[1, 2, 3, 4]", "[2, 2, 1, 1, 3, 3, 0]", "[10, -1, 7, 7, 3.5, 0, 22, -8, 4, 4, 9, 1, 6, 2, 8, 5, 11, 13, 12, 15, 14, 17, 16, 19, 18, 21, 20, 23, 25, 24, 27, 26, 29, 28, 31, 30, 33, 32, 35]"];
    for k in keys.iter() {
        for l in lists.iter() {
            let sess = Sess::new();
            let _ = sess.eval("bias = 100");
            let _ = sess.eval(k);
            let _ = sess.eval(&format!("xs = {}", l));
            let direct = sess.rout(&sess.eval("sort_by(xs, key)"));
            let wrapped = sess.rout(&sess.eval("sort_by(xs, v => key(v))"));
            let by_hand = sess.rout(&sess.eval("sort_by(zip(xs via (v => key(v)), xs), p => p[0]) via (p => p[1])"));
            sink.case(&format!("sortkey|{}|{}", k, l), matches!(direct, ROut::Ok(_)));
            sink.count("sort_by_key_differentials", 1);
            if !direct.agrees(&wrapped) || !direct.agrees(&by_hand) {
                sink.viol(
                    "call-site sort_by-key differs-from-direct-call",
                    "a function used as a sort_by key does not order the list by what it returns when called on each element",
                    json!({"setup": ["bias = 100", k, format!("xs = {}", l)], "sort_by(xs, key)": direct.show(), "sort_by(xs, v => key(v))": wrapped.show(), "decorate-sort-undecorate": by_hand.show()}),
                );
            }
        }
    }
}

pub fn run(ctx: &Ctx, sink: &mut Sink) {
    part_sort_by_keys(ctx, sink);
    part_siblings(ctx, sink);
    part_call_sites(ctx, sink);
    part_random_closures(ctx, sink);
    part_param_shadowing(ctx, sink);
    part_arg_binding(ctx, sink);
}
