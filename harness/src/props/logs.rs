//! C15, C16, C20, C06 (output direction): the probe evaluates through the real code and records
//! event logs; exact-arithmetic / independent-JSON oracles run offline in Python (py/c15.py ...).
//! Oracles that need no exact arithmetic (bit equality, convention agreement) are judged here.

use crate::Ctx;
use crate::gens;
use crate::hexpr::*;
use crate::out::Sink;
use crate::rng::Rng;
use crate::rt::{Out, RVal, ROut, Sess, guard, mk_value};
use blots_core::formatter::format_expr;
use blots_core::values::{SerializableValue, Value, format_display_number};
use serde_json::json;

fn hex(x: f64) -> String {
    format!("{:016x}", x.to_bits())
}

// ------------------------------------------------------------------------------------------------
// doubles

fn boundary_doubles() -> Vec<f64> {
    let mut v: Vec<f64> = Vec::new();
    let mut around = |x: f64, n: i64, v: &mut Vec<f64>| {
        let b = x.to_bits() as i64;
        for d in -n..=n {
            let y = f64::from_bits((b + d) as u64);
            if y.is_finite() {
                v.push(y);
                v.push(-y);
            }
        }
    };
    around(1e-4, 64, &mut v);
    around(1e15, 64, &mut v);
    around(1e21, 16, &mut v);
    around(9007199254740992.0, 16, &mut v);
    for k in -320..=308 {
        let x: f64 = format!("1e{}", k).parse().unwrap();
        if x > 0.0 && x.is_finite() {
            around(x, 8, &mut v);
        }
        for m in ["9.99999999999999", "9.999999999999995", "9.9999999999999949", "1.00000000000000049", "4.99999999999999", "9.99999999999994999", "1.5", "2.5", "9.5"] {
            let y: f64 = format!("{}e{}", m, k).parse().unwrap_or(0.0);
            if y > 0.0 && y.is_finite() {
                v.push(y);
                v.push(-y);
            }
        }
    }
    for e in -1074..=1023 {
        let x = 2f64.powi(e);
        if x > 0.0 && x.is_finite() {
            around(x, 1, &mut v);
        }
    }
    v.extend([0.0, -0.0, f64::MAX, f64::MIN, f64::MIN_POSITIVE, 5e-324, 999999999999998.1, 9999999.999999989, 0.1, 0.2, 0.30000000000000004, 1.0 / 3.0, 123456.789, 1234.5678, 0.000123456, 100.0, 1000.0, 999.9995, 0.99999999999999989]);
    v
}

fn random_double(r: &mut Rng) -> f64 {
    match r.below(8) {
        0..=3 => loop {
            let x = f64::from_bits(r.next());
            if x.is_finite() {
                break x;
            }
        },
        4 => {
            // display-range magnitudes
            let e = r.range(-5, 16) as i32;
            (r.unit() * 9.0 + 1.0) * 10f64.powi(e) * if r.chance(1, 2) { -1.0 } else { 1.0 }
        }
        5 => {
            // few significant digits
            let digits = r.range(1, 17) as u32;
            let m = (r.next() % 10u64.pow(digits.min(17))) as f64;
            m * 10f64.powi(r.range(-20, 20) as i32)
        }
        6 => {
            // integers
            (r.next() % (1u64 << r.range(1, 62))) as f64 * if r.chance(1, 2) { -1.0 } else { 1.0 }
        }
        _ => {
            // just below a power of ten
            let k = r.range(-4, 15) as i32;
            let x = 10f64.powi(k);
            f64::from_bits(x.to_bits() - 1 - r.below(2000) as u64)
        }
    }
}

// ------------------------------------------------------------------------------------------------
// C20

pub fn run_c20(ctx: &Ctx, sink: &mut Sink) {
    let sess = Sess::new();
    let mut emit = |sink: &mut Sink, x: f64, origin: &str| {
        let direct = guard(|| format_display_number(x));
        sess.bind("dx", Value::Number(x));
        let via_format = sess.rout(&sess.eval("format(\"{}\", dx)"));
        let nontrivial = !(x.fract() == 0.0 && x.abs() < 1e15);
        sink.case(&hex(x), nontrivial);
        match direct {
            Ok(t) => {
                if via_format != ROut::Ok(RVal::Str(t.clone())) {
                    sink.viol("format-builtin-differs-from-display", "format(\"{}\", x) differs from the display form of x", json!({"bits": hex(x), "display": t, "format": via_format.show()}));
                }
                sink.rec(json!({"t": "rec", "k": "c20", "b": hex(x), "txt": t, "o": origin}));
                // the same number shown as a member of a list / record / nested container: format displays it the same way
                if origin != "random" || x.to_bits() % 8 == 0 {
                    for (src, exp) in [
                        ("format(\"{}\", [dx])", format!("[{}]", t)),
                        ("format(\"{}\", {total: dx})", format!("{{total: {}}}", t)),
                        ("format(\"{}\", {a: [dx, {b: dx}], c: dx})", format!("{{a: [{}, {{b: {}}}], c: {}}}", t, t, t)),
                        ("format(\"{} and {}\", [[dx]], dx)", format!("[[{}]] and {}", t, t)),
                    ] {
                        let got = sess.rout(&sess.eval(src));
                        if got != ROut::Ok(RVal::Str(exp.clone())) {
                            sink.viol("display-inside-container-differs", "a number inside a list / record is displayed by format differently from the number on its own", json!({"bits": hex(x), "program": src, "display_alone": t, "got": got.show(), "expected": exp}));
                        }
                    }
                }
                if sink.want_sample() && nontrivial && origin == "random" {
                    sink.sample(json!({"bits": hex(x), "value": format!("{:?}", x), "display": t}));
                }
            }
            Err(p) => sink.viol_for("C01", &format!("stage=display {}", crate::props::c01::norm_panic(&p)), "format_display_number panicked", json!({"bits": hex(x)})),
        }
    };
    let b = boundary_doubles();
    for (i, x) in b.iter().enumerate() {
        if ctx.mine(i as u64) {
            emit(sink, *x, "boundary");
        }
    }
    // NaN with either sign bit and other payloads, the infinities
    for x in [f64::NAN, -f64::NAN, f64::from_bits(0x7ff8_0000_0000_0001), f64::from_bits(0xfff0_0000_0000_0001), f64::from_bits(0x7ff4_0000_0000_0000), f64::INFINITY, f64::NEG_INFINITY] {
        if ctx.shard_i == 0 {
            emit(sink, x, "special");
        }
    }
    // the same values as programs compute them (the sign bit of a computed NaN depends on the operation and the platform)
    if ctx.shard_i == 0 {
        for (src, expected) in [
            ("format(\"{}\", 0 / 0)", "NaN"),
            ("format(\"{}\", -(0 / 0))", "NaN"),
            ("format(\"{}\", inf - inf)", "NaN"),
            ("format(\"{}\", 0 * inf)", "NaN"),
            ("format(\"{} {}\", inf, -inf)", "Infinity -Infinity"),
            ("format(\"{}\", [0 / 0, -(0 / 0), -inf])", "[NaN, NaN, -Infinity]"),
            ("format(\"{}\", {a: inf - inf})", "{a: NaN}"),
        ] {
            let got = sess.rout(&sess.eval(src));
            sink.case(&format!("computed-special|{}", src), true);
            if got != ROut::Ok(RVal::Str(expected.to_string())) {
                sink.viol("special computed", "a computed NaN / infinity is not shown by name", json!({"program": src, "got": got.show(), "expected": expected}));
            }
        }
    }
    let n = ctx.budget(600_000, 40_000_000);
    for i in 0..n {
        if !ctx.mine(i) {
            continue;
        }
        let mut r = Rng::derive(ctx.seed, "c20", i);
        let x = random_double(&mut r);
        emit(sink, x, "random");
    }
}

// ------------------------------------------------------------------------------------------------
// C16

fn literal_spellings(r: &mut Rng) -> String {
    let digits = |r: &mut Rng, n: usize, first_nonzero: bool| -> String {
        (0..n)
            .map(|i| {
                let lo = if i == 0 && first_nonzero { 1 } else { 0 };
                char::from(b'0' + (lo + r.below(10 - lo)) as u8)
            })
            .collect()
    };
    let with_seps = |r: &mut Rng, s: String| -> String {
        if s.len() < 2 || !r.chance(1, 3) {
            return s;
        }
        let mut out = String::new();
        for (i, c) in s.chars().enumerate() {
            if i > 0 && r.chance(1, 4) {
                out.push('_');
                if r.chance(1, 6) {
                    out.push('_');
                }
            }
            out.push(c);
        }
        out
    };
    match r.below(14) {
        12 | 13 => {
            // radix literals around rounding boundaries: 53 significant bits, then the round bit, then a
            // run of zeros, optionally one more set bit far below, then zeros (exact ties round to even,
            // anything above a tie rounds up - however far below the deciding bit sits)
            let mut bits = String::from("1");
            for _ in 0..52 {
                bits.push(if r.chance(1, 2) { '1' } else { '0' });
            }
            bits.push(if r.chance(3, 4) { '1' } else { '0' });
            for _ in 0..r.below(48) {
                bits.push('0');
            }
            if r.chance(2, 3) {
                bits.push('1');
                for _ in 0..r.below(30) {
                    bits.push('0');
                }
            }
            if r.chance(1, 2) {
                format!("0b{}", bits)
            } else {
                // same value in hexadecimal: left-pad to a multiple of four bits
                while bits.len() % 4 != 0 {
                    bits.insert(0, '0');
                }
                let hex: String = bits.as_bytes().chunks(4).map(|c| {
                    let v = c.iter().fold(0u32, |a, b| a * 2 + (*b - b'0') as u32);
                    std::char::from_digit(v, 16).unwrap()
                }).collect();
                format!("0x{}", hex.trim_start_matches('0'))
            }
        }
        0 => {
            let n = 1 + r.below(40);
            let d = digits(r, n, false);
            with_seps(r, d)
        }
        1 => {
            let (ni, nf) = (1 + r.below(20), 1 + r.below(25));
            let i = digits(r, ni, false);
            format!("{}.{}", with_seps(r, i), digits(r, nf, false))
        }
        2 => {
            let n = 1 + r.below(20);
            format!(".{}", digits(r, n, false))
        }
        3 => {
            let n = 1 + r.below(20);
            let e = r.range(-330, 315);
            let sign = if e >= 0 && r.chance(1, 3) { "+" } else { "" };
            format!("{}{}{}{}", digits(r, n, true), *r.pick(&["e", "E"]), sign, e)
        }
        4 => {
            let (ni, nf) = (1 + r.below(4), 1 + r.below(20));
            let e = r.range(-330, 310);
            format!("{}.{}e{}", digits(r, ni, true), digits(r, nf, false), e)
        }
        5 => {
            let nf = 1 + r.below(10);
            let e = r.range(-20, 20);
            format!(".{}e{}", digits(r, nf, false), e)
        }
        6 => {
            // hex up to 15 digits (below 2^63)
            let n = 1 + r.below(15);
            let s: String = (0..n).map(|_| *r.pick(&['0', '1', '2', '7', '8', '9', 'a', 'b', 'f', 'A', 'F', 'c', 'D', 'e'])).collect();
            format!("{}0x{}", *r.pick(&["", "", "+", "-"]), with_seps(r, s))
        }
        7 => {
            let n = 1 + r.below(62);
            let s: String = (0..n).map(|_| if r.chance(1, 2) { '1' } else { '0' }).collect();
            format!("{}0b{}", *r.pick(&["", "", "+", "-"]), with_seps(r, s))
        }
        8 => {
            // halfway cases between adjacent doubles around 2^53
            let base: u64 = (1u64 << 53) + 2 * r.below(1000) as u64;
            format!("{}", base + 1)
        }
        9 => {
            // long decimal expansions of random doubles, perturbed in the last digits
            let x = f64::from_bits(r.next() & 0x7fef_ffff_ffff_ffff);
            let s = format!("{:e}", x);
            let (m, e) = s.split_once('e').unwrap();
            let extra = r.below(25);
            format!("{}{}e{}", m, digits(r, extra, false), e)
        }
        10 => {
            // thresholds: subnormal / overflow
            r.pick(&["4.9406564584124654e-324", "2.4703282292062327e-324", "2.4703282292062328e-324", "1.7976931348623157e308", "1.7976931348623158e308",
                "1.797693134862315807e308", "2.2250738585072011e-308", "2.2250738585072014e-308", "0.1", "0.3", "1e23", "9007199254740993", "9007199254740992.5",
                "0.000001", "123456789012345678", "1e22", "8.5e-320", "5e-324", "1e-400", "000123", "0.0", "00", "1_0.5", "0x7fffffffffffffff", "0b0", "0x0", "+7", "+.5", "1e0"])
                .to_string()
        }
        _ => {
            // radix literals above i64 (separate class)
            let n = 16 + r.below(20);
            let s: String = (0..n).map(|i| if i == 0 { *r.pick(&['8', '9', 'f', 'F', '1']) } else { *r.pick(&['0', '5', 'a', 'f', '3']) }).collect();
            if r.chance(1, 3) {
                let nb = 64 + r.below(40);
                format!("0b1{}", (0..nb).map(|_| if r.chance(1, 2) { '1' } else { '0' }).collect::<String>())
            } else {
                format!("0x{}", s)
            }
        }
    }
}

pub fn run_c16(ctx: &Ctx, sink: &mut Sink) {
    let sess = Sess::new();
    // ---- paths P1..P5 for doubles
    let mut paths = |sink: &mut Sink, x: f64, origin: &str| {
        let nontrivial = !(x.fract() == 0.0 && x.abs() < 9007199254740992.0);
        sink.case(&hex(x), nontrivial);
        sess.bind("nx", Value::Number(x));
        let mut report = |sink: &mut Sink, path: &str, text: &str, out: Option<f64>| {
            sink.rec(json!({"t": "rec", "k": "c16p", "p": path, "b": hex(x), "txt": text, "o": out.map(hex)}));
            let ok = matches!(out, Some(y) if y.to_bits() == x.to_bits());
            if !ok {
                let cls = if x == 0.0 && x.is_sign_negative() { "negative-zero" } else if x.fract() == 0.0 && x.abs() < 1e15 { "integer<1e15" } else if x.fract() == 0.0 { "integer>=1e15" } else { "fraction" };
                sink.viol(&format!("path={} class={}", path, cls), "a finite number does not survive a textual path exactly", json!({"path": path, "bits_in": hex(x), "value": format!("{:?}", x), "text": text, "bits_out": out.map(hex), "origin": origin}));
            }
        };
        // P1 to_string -> to_number
        if let Out::Ok(v) = sess.eval("to_string(nx)") {
            let text = sess.rval(&v);
            if let RVal::Str(t) = text {
                let back = sess.eval("to_number(to_string(nx))");
                let out = match back {
                    Out::Ok(Value::Number(y)) => Some(y),
                    _ => None,
                };
                report(sink, "P1-to_string-to_number", &t, out);
            }
        }
        // P2 JSON out -> JSON in (in process)
        {
            let sv = SerializableValue::Number(x);
            let text = serde_json::to_string(&sv.to_json()).unwrap_or_default();
            let out = serde_json::from_str::<serde_json::Value>(&text).ok().map(|j| SerializableValue::from_json(&j)).and_then(|s| match s {
                SerializableValue::Number(y) => Some(y),
                _ => None,
            });
            report(sink, "P2-json-out-in", &text, out);
        }
        // P3 captured in a closure -> emitted source -> reloaded -> called
        {
            let s3 = Sess::new();
            s3.bind("cap", Value::Number(x));
            if let Out::Ok(f) = s3.eval("f = () => cap") {
                let emitted = SerializableValue::from_value(&f, &s3.heap.borrow()).ok().map(|sv| sv.to_json());
                if let Some(j) = emitted {
                    let text = j.to_string();
                    let s4 = Sess::new();
                    let out = serde_json::from_str::<serde_json::Value>(&text).ok().and_then(|jj| SerializableValue::from_json(&jj).to_value(&mut s4.heap.borrow_mut()).ok()).and_then(|v| {
                        s4.bind("g", v);
                        match s4.eval("g()") {
                            Out::Ok(Value::Number(y)) => Some(y),
                            _ => None,
                        }
                    });
                    let body = j.get("__blots_function").and_then(|b| b.as_str()).unwrap_or("").to_string();
                    report(sink, "P3-captured-emitted-reloaded", &body, out);
                }
            }
        }
        // P4 literal in a function body -> emitted -> reloaded ; P5 literal statement -> formatter -> parse -> evaluate
        if x.is_finite() {
            let lit = print_min(&num(x));
            let s5 = Sess::new();
            if let Out::Ok(f) = s5.eval(&format!("f = () => {}", lit)) {
                if let Ok(sv) = SerializableValue::from_value(&f, &s5.heap.borrow()) {
                    let text = sv.to_json().to_string();
                    let s6 = Sess::new();
                    let out = serde_json::from_str::<serde_json::Value>(&text).ok().and_then(|jj| SerializableValue::from_json(&jj).to_value(&mut s6.heap.borrow_mut()).ok()).and_then(|v| {
                        s6.bind("g", v);
                        match s6.eval("g()") {
                            Out::Ok(Value::Number(y)) => Some(y),
                            _ => None,
                        }
                    });
                    report(sink, "P4-literal-emitted-reloaded", &text, out);
                }
            }
            if let Ok(asts) = crate::rt::parse_program_ast(&format!("v = {}", lit), true) {
                if let Some(a) = asts.first() {
                    if let Ok(ftext) = guard(|| format_expr(a, None)) {
                        let s7 = Sess::new();
                        let out = match s7.eval(&ftext) {
                            Out::Ok(Value::Number(y)) => Some(y),
                            _ => None,
                        };
                        report(sink, "P5-literal-formatted-parsed", &ftext, out);
                    }
                }
            }
        }
        if sink.want_sample() && nontrivial && origin == "random" {
            sink.sample(json!({"bits": hex(x), "value": format!("{:?}", x), "paths": ["P1", "P2", "P3", "P4", "P5"]}));
        }
    };
    let b = boundary_doubles();
    // the boundary set is large (40k): every 4th in quick
    let stride = if ctx.quick { 4 } else { 1 };
    for (i, x) in b.iter().enumerate() {
        if i % stride == 0 && ctx.mine((i / stride) as u64) {
            paths(sink, *x, "boundary");
        }
    }
    let n = ctx.budget(80_000, 8_000_000);
    for i in 0..n {
        if !ctx.mine(i) {
            continue;
        }
        let mut r = Rng::derive(ctx.seed, "c16", i);
        let x = random_double(&mut r);
        paths(sink, x, "random");
    }
    // ---- literals: the probe records what the parser made of each spelling; the exact value is
    //      computed offline from the spelling alone
    let nl = ctx.budget(120_000, 8_000_000);
    for i in 0..nl {
        if !ctx.mine(i) {
            continue;
        }
        let mut r = Rng::derive(ctx.seed, "c16-lit", i);
        let spelling = literal_spellings(&mut r);
        let s8 = Sess::new();
        let out = s8.eval(&spelling);
        let (status, bits) = match &out {
            Out::Ok(Value::Number(y)) => ("ok", Some(hex(*y))),
            Out::Ok(_) => ("other", None),
            Out::Err(_) => ("err", None),
            Out::Panic(_) => ("panic", None),
        };
        sink.case(&format!("lit|{}", spelling), true);
        sink.rec(json!({"t": "rec", "k": "c16l", "s": spelling, "st": status, "b": bits}));
        if let Out::Panic(p) = &out {
            sink.viol_for("C01", &format!("stage=evaluate {}", crate::props::c01::norm_panic(p)), "literal evaluation panicked", json!({"literal": spelling}));
        }
    }
}

// ------------------------------------------------------------------------------------------------
// C15

fn gen_numbers(r: &mut Rng) -> (Vec<f64>, &'static str) {
    let n = 1 + r.below(50);
    let regime = r.below(8);
    let name = ["small-integers", "dyadic", "decimal-fractions", "mixed-magnitudes", "with-infinities", "duplicates", "tiny-and-huge", "overflowing"][regime];
    let v = (0..n)
        .map(|_| match regime {
            0 => r.range(-100, 100) as f64,
            1 => r.range(-4096, 4096) as f64 / 64.0,
            2 => r.range(-100000, 100000) as f64 / 1000.0,
            3 => (r.unit() - 0.5) * 10f64.powi(r.range(-6, 12) as i32),
            4 => match r.below(8) {
                0 => f64::INFINITY,
                1 => f64::NEG_INFINITY,
                _ => r.range(-50, 50) as f64,
            },
            5 => *r.pick(&[1.0, 2.0, 2.0, 3.5, -1.0, 0.0, -0.0, 7.0]),
            // magnitudes round 1e308: partial sums overflow to an infinity (and may come back to NaN)
            7 => (r.unit() + 0.5) * 1e308 * if r.chance(1, 3) { -1.0 } else { 1.0 } * if r.chance(1, 4) { 1e-3 } else { 1.0 },
            _ => (r.unit() + 0.5) * 10f64.powi(*r.pick(&[-300, -150, -20, 0, 20, 150, 290])) * if r.chance(1, 3) { -1.0 } else { 1.0 },
        })
        .collect();
    (v, name)
}

pub fn run_c15(ctx: &Ctx, sink: &mut Sink) {
    let n = ctx.budget(40_000, 2_000_000);
    let mut sess = Sess::new();
    let aggs = ["sum", "prod", "avg", "min", "max", "median"];
    for i in 0..n {
        if !ctx.mine(i) {
            continue;
        }
        // a fresh heap + environment for two cases out of three, on the same thread: whatever an aggregate remembers
        // between calls must not outlive the heap its values live in
        if (i / ctx.shard_n) % 3 != 0 {
            sess = Sess::new();
        }
        let mut r = Rng::derive(ctx.seed, "c15", i);
        let (xs, regime) = gen_numbers(&mut r);
        let mut shuffled = xs.clone();
        r.shuffle(&mut shuffled);
        let l = RVal::List(xs.iter().map(|x| RVal::num(*x)).collect());
        let ls = RVal::List(shuffled.iter().map(|x| RVal::num(*x)).collect());
        let vl = mk_value(&sess.heap, &l);
        let vs = mk_value(&sess.heap, &ls);
        sess.bind("L", vl);
        sess.bind("LS", vs);
        sink.case(&format!("c15|{:?}", xs.iter().map(|x| x.to_bits()).collect::<Vec<_>>()), xs.len() >= 2);
        let names: Vec<String> = (0..xs.len()).map(|k| format!("L[{}]", k)).collect();
        let mut rec = serde_json::Map::new();
        rec.insert("t".into(), json!("rec"));
        rec.insert("k".into(), json!("c15"));
        rec.insert("regime".into(), json!(regime));
        rec.insert("xs".into(), json!(xs.iter().map(|x| hex(*x)).collect::<Vec<_>>()));
        for f in aggs {
            let a = sess.rout(&sess.eval(&format!("{}(L)", f)));
            let b = sess.rout(&sess.eval(&format!("{}(...L)", f)));
            // the same numbers spread from two lists (one of them possibly empty) and mixed with plain arguments
            {
                let cut = r.below(xs.len() + 1);
                let la = RVal::List(xs[..cut].iter().map(|x| RVal::num(*x)).collect());
                let lb = RVal::List(xs[cut..].iter().map(|x| RVal::num(*x)).collect());
                sess.bind("LA", mk_value(&sess.heap, &la));
                sess.bind("LB", mk_value(&sess.heap, &lb));
                for form in ["{}(...LA, ...LB)", "{}(...[], ...L)", "{}(...L, ...[])", "{}(...[], ...LA, ...[], ...LB)", "{}(...LA, ...LB, ...[])"] {
                    let got = sess.rout(&sess.eval(&form.replace("{}", f)));
                    let same = match (&a, &got) {
                        (ROut::Ok(x), ROut::Ok(y)) => x.show() == y.show(),
                        (ROut::Err(_), ROut::Err(_)) => true,
                        _ => false,
                    };
                    if !same {
                        sink.viol(&format!("convention-differs f={} split-spread", f), "an aggregate differs when its numbers are spread from several lists", json!({"f": f, "list": l.show(), "cut": cut, "form": form, "f(list)": a.show(), "got": got.show()}));
                        break;
                    }
                }
            }
            let c = sess.rout(&sess.eval(&format!("{}({})", f, names.join(", "))));
            let s = sess.rout(&sess.eval(&format!("{}(LS)", f)));
            // calling conventions agree exactly (a single number as sole argument is the 1-element case)
            if !(a.agrees(&b) && a.agrees(&c)) {
                sink.viol(&format!("convention-differs f={}", f), "an aggregate differs between list, spread and separate-argument calls", json!({"f": f, "list": l.show(), "f(list)": a.show(), "f(...list)": b.show(), "f(a, b, ...)": c.show()}));
            }
            let bits = |o: &ROut| match o {
                ROut::Ok(RVal::Num(b)) => json!(format!("{:016x}", b)),
                ROut::Ok(_) => json!("non-number"),
                ROut::Err(_) => json!("err"),
                ROut::Panic(_) => json!("panic"),
            };
            rec.insert(f.to_string(), bits(&a));
            rec.insert(format!("{}_shuffled", f), bits(&s));
            if let ROut::Panic(p) = &a {
                sink.viol_for("C01", &format!("builtin={} {}", f, crate::props::c01::norm_panic(p)), "aggregate panicked", json!({"list": l.show()}));
            }
        }
        // percentile on a grid
        let mut ps = Vec::new();
        for p in [0.0, 1.0, 10.0, 25.0, 33.3, 50.0, 66.6, 75.0, 90.0, 99.0, 100.0, r.unit() * 100.0] {
            let o = sess.rout(&sess.eval(&format!("percentile(L, {})", p)));
            let os = sess.rout(&sess.eval(&format!("percentile(LS, {})", p)));
            let enc = |o: &ROut| match o {
                ROut::Ok(RVal::Num(b)) => format!("{:016x}", b),
                ROut::Err(_) => "err".to_string(),
                _ => "other".to_string(),
            };
            ps.push(json!([p, enc(&o), enc(&os)]));
        }
        rec.insert("percentiles".into(), json!(ps));
        // the same small program on a brand-new heap (as an embedding host evaluates one template with new data each time):
        // the list sits in the same heap slot as the previous case's list did, and every aggregate must still answer for
        // THIS list - identically to the session above
        {
            let fresh = Sess::new();
            fresh.bind("L", mk_value(&fresh.heap, &l));
            let prog = "[percentile(L, 50), percentile(L, 0), percentile(L, 100), median(L), min(L), max(L), sum(L), prod(L), avg(L)]";
            let got = fresh.rout(&fresh.eval(prog));
            let want = sess.rout(&sess.eval(prog));
            sink.count("fresh_heap_template_runs", 1);
            let same = match (&got, &want) {
                (ROut::Ok(a), ROut::Ok(b)) => a.show() == b.show(),
                (ROut::Err(_), ROut::Err(_)) => true,
                _ => false,
            };
            if !same {
                sink.viol("aggregate-depends-on-earlier-evaluation", "an aggregate over a list on a fresh heap differs from the same call in another session (it remembered a list of an earlier evaluation)", json!({"list": l.show(), "program": prog, "fresh_heap": got.show(), "other_session": want.show()}));
            }
        }
        if sink.want_sample() && xs.len() > 3 && xs.len() < 9 {
            sink.sample(json!({"list": l.show(), "regime": regime}));
        }
        sink.rec(serde_json::Value::Object(rec));
    }
}

// ------------------------------------------------------------------------------------------------
// C06 - output direction (in process); the input direction runs the CLI from Python

pub fn run_c06(ctx: &Ctx, sink: &mut Sink) {
    let n = ctx.budget(30_000, 400_000);
    for i in 0..n {
        if !ctx.mine(i) {
            continue;
        }
        let mut r = Rng::derive(ctx.seed, "c06", i);
        let depth = r.below(6);
        let v0 = if i % 97 < 6 {
            // neighbours that differ in the sign of a zero only (equal under ==, different doubles)
            let z = |neg: bool| RVal::num(if neg { -0.0 } else { 0.0 });
            let wrap = |v: RVal, k: u64| match k {
                0 => v,
                1 => RVal::List(vec![v]),
                2 => RVal::Rec(vec![("a".to_string(), RVal::List(vec![v]))]),
                _ => RVal::List(vec![RVal::num(1.0), RVal::Rec(vec![("a".to_string(), v)])]),
            };
            let k = (i % 97) % 4;
            RVal::List(vec![wrap(z(false), k), wrap(z(true), k), wrap(z(false), k), wrap(z(true), k), wrap(z(true), k)])
        } else {
            gens::random_data(&mut r, depth, true)
        };
        let sess = Sess::new();
        // one case in five shares sub-structure: the same heap list / record / string is reached several times inside the
        // value (values built by a program are DAGs, not trees)
        let (v, val) = if i % 5 == 3 {
            let shared = mk_value(&sess.heap, &v0);
            sess.bind("SH", shared);
            let built = sess.eval("[SH, SH, {p: SH, q: [SH, [SH]]}, SH]");
            match built {
                Out::Ok(b) => {
                    let tree = RVal::List(vec![
                        v0.clone(),
                        v0.clone(),
                        RVal::Rec(vec![("p".to_string(), v0.clone()), ("q".to_string(), RVal::List(vec![v0.clone(), RVal::List(vec![v0.clone()])]))]),
                        v0.clone(),
                    ]);
                    (tree, b)
                }
                _ => {
                    let val = mk_value(&sess.heap, &v0);
                    (v0.clone(), val)
                }
            }
        } else {
            let val = mk_value(&sess.heap, &v0);
            (v0.clone(), val)
        };
        let nontrivial = has_interesting_leaf(&v);
        sink.case(&format!("c06|{}", v.show()), nontrivial);
        let text = {
            let heap = sess.heap.borrow();
            match SerializableValue::from_value(&val, &heap) {
                Ok(sv) => serde_json::to_string(&sv.to_json()).ok(),
                Err(_) => None,
            }
        };
        let Some(text) = text else {
            sink.viol("output-serialisation-failed", "a data value could not be written as output JSON", json!({"value": v.show()}));
            continue;
        };
        // offline: Python's json parses `text` and compares with the tagged tree
        sink.rec(json!({"t": "rec", "k": "c06o", "expected": v.to_json(), "json": text}));
        // in process: read it back by the repository's input path
        let s2 = Sess::new();
        let back = serde_json::from_str::<serde_json::Value>(&text).ok().and_then(|j| SerializableValue::from_json(&j).to_value(&mut s2.heap.borrow_mut()).ok());
        match back {
            Some(b) => {
                let rb = s2.rval(&b);
                if !same_unordered(&rb, &v) {
                    let cls = first_diff_class(&v, &rb);
                    sink.viol(&format!("output-input-roundtrip {}", cls), "a value written as output JSON and read back as input is not the same value", json!({"value": v.show(), "json": text, "read_back": rb.show()}));
                } else {
                    // and `.==` in the language
                    s2.bind("a", b);
                    let orig = mk_value(&s2.heap, &v);
                    s2.bind("b", orig);
                    let eq = s2.rout(&s2.eval("a .== b"));
                    if eq != ROut::Ok(RVal::Bool(true)) {
                        sink.viol("output-input-roundtrip not-dot-equal", "read-back value is not .== to the original", json!({"value": v.show(), "eq": eq.show()}));
                    }
                }
            }
            None => sink.viol("output-input-roundtrip unreadable", "output JSON cannot be read back as input", json!({"value": v.show(), "json": text})),
        }
        if sink.want_sample() && nontrivial && text.len() < 300 {
            sink.sample(json!({"value": v.show(), "json": text}));
        }
    }
}

/// bit-exact numbers, code-point-exact strings and keys, record key order ignored
fn same_unordered(a: &RVal, b: &RVal) -> bool {
    match (a, b) {
        (RVal::List(x), RVal::List(y)) => x.len() == y.len() && x.iter().zip(y).all(|(p, q)| same_unordered(p, q)),
        (RVal::Rec(x), RVal::Rec(y)) => x.len() == y.len() && x.iter().all(|(k, v)| y.iter().any(|(k2, v2)| k == k2 && same_unordered(v, v2))),
        (p, q) => p == q,
    }
}

fn has_interesting_leaf(v: &RVal) -> bool {
    match v {
        RVal::Num(b) => f64::from_bits(*b).fract() != 0.0,
        RVal::Str(s) => !s.is_ascii() || s.contains('"') || s.contains('\\') || s.chars().any(|c| (c as u32) < 0x20),
        RVal::List(l) => l.iter().any(has_interesting_leaf),
        RVal::Rec(r) => r.iter().any(|(k, v)| !k.is_ascii() || k.is_empty() || has_interesting_leaf(v)),
        _ => false,
    }
}

fn first_diff_class(a: &RVal, b: &RVal) -> String {
    match (a, b) {
        (RVal::Num(x), RVal::Num(y)) if x != y => "number-bits".into(),
        (RVal::Str(x), RVal::Str(y)) if x != y => "string".into(),
        (RVal::List(x), RVal::List(y)) => {
            if x.len() != y.len() {
                return "list-length".into();
            }
            for (p, q) in x.iter().zip(y) {
                if !same_unordered(p, q) {
                    return first_diff_class(p, q);
                }
            }
            "list".into()
        }
        (RVal::Rec(x), RVal::Rec(y)) => {
            if x.len() != y.len() {
                return "record-size".into();
            }
            for (k1, p) in x.iter() {
                match y.iter().find(|(k2, _)| k2 == k1) {
                    None => return "record-key".into(),
                    Some((_, q)) => {
                        if !same_unordered(p, q) {
                            return first_diff_class(p, q);
                        }
                    }
                }
            }
            "record".into()
        }
        _ => "type".into(),
    }
}
