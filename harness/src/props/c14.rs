//! C14 - indexing, spreading and the list / string / record built-ins satisfy their laws.

use crate::Ctx;
use crate::gens;
use crate::model;
use crate::out::Sink;
use crate::rng::Rng;
use crate::rt::{RVal, ROut, Sess, mk_value};
use serde_json::json;
use std::cmp::Ordering;

fn n(x: f64) -> RVal {
    RVal::num(x)
}
fn s(x: &str) -> RVal {
    RVal::Str(x.to_string())
}
fn list(v: Vec<RVal>) -> RVal {
    RVal::List(v)
}

fn gen_list(r: &mut Rng) -> Vec<RVal> {
    let len = match r.below(6) {
        0 => 0,
        1 => 1,
        2 => r.below(5),
        3 => r.below(12),
        _ => r.below(41),
    };
    let mode = r.below(7);
    (0..len)
        .map(|_| match mode {
            0 | 1 => n(r.below(6) as f64),
            2 => n(r.range(-50, 50) as f64 / 4.0),
            3 => s(*r.pick(&["a", "b", "ab", "", "é", "z"])),
            4 => list((0..r.below(3)).map(|_| n(r.below(3) as f64)).collect()),
            5 => match r.below(6) {
                0 => n(r.below(3) as f64),
                1 => s(*r.pick(&["a", "b"])),
                2 => RVal::Bool(r.chance(1, 2)),
                3 => RVal::Null,
                4 => list(vec![n(1.0)]),
                _ => RVal::Rec(vec![("k".into(), n(r.below(2) as f64))]),
            },
            _ => r.pick(&[n(0.0), n(-0.0), n(1.0), n(1.0), n(2.0)]).clone(),
        })
        .collect()
}

fn gen_string(r: &mut Rng) -> String {
    match r.below(5) {
        0 => String::new(),
        1 => r.pick(&["a", "hello", "a,b,,c", "  x  ", "aaa", "abcabc"]).to_string(),
        2 => r.pick(&["é", "éa", "aé", "日本語", "a😀b", "e\u{301}x", "ßß", "😀"]).to_string(),
        3 => {
            // characters whose code points agree in their low byte / low 16 bits / UTF-8 lead byte (a table indexed by a
            // truncated code point or by a byte would confuse them)
            let base = *r.pick(&['a', '1', ',', ' ', 'Z', 'é']);
            let kin: Vec<char> = [0x100u32, 0x300, 0x4E00, 0x1_0000, 0x1_F600 - 0x61 + 0x61]
                .iter()
                .filter_map(|d| char::from_u32(base as u32 + d))
                .chain([base, 'ö', 'ü', '🚀', '😁'])
                .collect();
            (0..1 + r.below(8)).map(|_| *r.pick(&kin)).collect()
        }
        _ => {
            let alphabet: Vec<char> = "abé日😀, ".chars().collect();
            (0..r.below(9)).map(|_| *r.pick(&alphabet)).collect()
        }
    }
}

fn is_ascii(sv: &str) -> bool {
    sv.is_ascii()
}

struct L<'a> {
    sess: &'a Sess,
    sink: &'a mut Sink,
    ctx_desc: serde_json::Value,
}

impl<'a> L<'a> {
    fn ev(&self, src: &str) -> ROut {
        self.sess.rout(&self.sess.eval(src))
    }
    /// `src` must evaluate to exactly `exp`
    fn expect(&mut self, law: &str, src: &str, exp: &RVal) {
        let got = self.ev(src);
        if got != ROut::Ok(exp.clone()) {
            let mut c = self.ctx_desc.clone();
            c["law"] = json!(law);
            c["source"] = json!(src);
            c["got"] = json!(got.show());
            c["expected"] = json!(exp.show());
            self.sink.viol(&format!("law={}", law), "a documented law of the list / string / record built-ins does not hold", c);
        }
    }
    /// `.==`-level expectation (numbers by value)
    fn expect_eq(&mut self, law: &str, src: &str, exp: &RVal) {
        let got = self.ev(src);
        let ok = matches!(&got, ROut::Ok(g) if g.sem_eq(exp));
        if !ok {
            let mut c = self.ctx_desc.clone();
            c["law"] = json!(law);
            c["source"] = json!(src);
            c["got"] = json!(got.show());
            c["expected"] = json!(exp.show());
            self.sink.viol(&format!("law={}", law), "a documented law of the list / string / record built-ins does not hold", c);
        }
    }
    fn expect_true(&mut self, law: &str, src: &str) {
        self.expect(law, src, &RVal::Bool(true));
    }
    fn no_crash(&mut self, law: &str, src: &str, allowed: &[RVal]) {
        let got = self.ev(src);
        match &got {
            ROut::Panic(p) => {
                let mut c = self.ctx_desc.clone();
                c["source"] = json!(src);
                c["panic"] = json!(p);
                self.sink.viol_for("C01", &format!("stage=evaluate {}", crate::props::c01::norm_panic(p)), "panic during evaluation", c);
            }
            ROut::Ok(v) => {
                if !allowed.is_empty() && !allowed.contains(v) {
                    let mut c = self.ctx_desc.clone();
                    c["law"] = json!(law);
                    c["source"] = json!(src);
                    c["got"] = json!(got.show());
                    self.sink.viol(&format!("law={}", law), "result is neither an element nor null", c);
                }
            }
            ROut::Err(_) => {}
        }
    }
}

fn list_laws(ctx: &Ctx, sink: &mut Sink, i: u64) {
    let mut r = Rng::derive(ctx.seed, "c14-list", i);
    let sess = Sess::new();
    let a = gen_list(&mut r);
    let b = gen_list(&mut r);
    let va = mk_value(&sess.heap, &list(a.clone()));
    let vb = mk_value(&sess.heap, &list(b.clone()));
    sess.bind("A", va);
    sess.bind("B", vb);
    let len = a.len();
    sink.case(&format!("list|{}|{}", list(a.clone()).show(), list(b.clone()).show()), len > 0);
    if sink.want_sample() && len > 3 {
        sink.sample(json!({"part": "list-laws", "A": list(a.clone()).show(), "B": list(b.clone()).show()}));
    }
    let mut l = L { sess: &sess, sink, ctx_desc: json!({"A": list(a.clone()).show(), "B": list(b.clone()).show()}) };

    // length / reverse / concat / spread
    l.expect("len", "len(A)", &n(len as f64));
    let mut rev = a.clone();
    rev.reverse();
    l.expect("reverse-definition", "reverse(A)", &list(rev));
    l.expect("reverse-involution", "reverse(reverse(A))", &list(a.clone()));
    let mut ab = a.clone();
    ab.extend(b.iter().cloned());
    l.expect("concat", "concat(A, B)", &list(ab.clone()));
    l.expect("spread-equals-concat", "[...A, ...B]", &list(ab.clone()));
    l.expect("spread-list-identity", "[...A]", &list(a.clone()));
    let mut mid = vec![n(9.0)];
    mid.extend(a.iter().cloned());
    mid.push(n(8.0));
    l.expect("spread-in-middle", "[9, ...A, 8]", &list(mid));
    // head / tail
    if len > 0 {
        l.expect("head", "head(A)", &a[0]);
        l.expect("tail", "tail(A)", &list(a[1..].to_vec()));
        l.expect("head-tail-rebuild", "[head(A), ...tail(A)]", &list(a.clone()));
    } else {
        l.expect("head-empty", "head(A)", &RVal::Null);
        l.expect("tail-empty", "tail(A)", &list(vec![]));
    }
    // indexing
    for k in -(len as i64) - 2..=(len as i64) + 1 {
        let exp = if k >= 0 {
            a.get(k as usize).cloned().unwrap_or(RVal::Null)
        } else {
            let j = len as i64 + k;
            if j >= 0 { a[j as usize].clone() } else { RVal::Null }
        };
        let src = if k < 0 { format!("A[-{}]", -k) } else { format!("A[{}]", k) };
        l.expect("indexing", &src, &exp);
    }
    // fractional / NaN / huge indices: element or null, never a crash
    let mut allowed: Vec<RVal> = a.clone();
    allowed.push(RVal::Null);
    for idx in ["0.5", "1.9", "-0.5", "0/0", "1e30", "-1e30", "inf", "-inf", "2^53", "-(2^63)"] {
        l.no_crash("indexing-odd-index", &format!("A[{}]", idx), &allowed);
    }
    // a fractional index INSIDE the range -len .. len-1 is not "out of range": whatever element it selects (or if it is refused
    // with an error), it does not yield the out-of-range answer null - unless null is an element of the list
    if len > 0 && !a.contains(&RVal::Null) {
        let inside: Vec<RVal> = a.clone();
        for x in [0.5f64, 0.25, -0.5, -0.25, -0.999, 1.5, -1.5, len as f64 - 1.5, -(len as f64) + 0.5] {
            if x > len as f64 - 1.0 || x < -(len as f64) {
                continue;
            }
            let src = if x < 0.0 { format!("A[-{}]", -x) } else { format!("A[{}]", x) };
            l.no_crash("fractional-index-in-range-is-not-null", &src, &inside);
        }
    }
    // slice (valid ranges are the definition; others must not crash)
    for _ in 0..4 {
        let x = r.below(len + 1);
        let y = x + r.below(len + 1 - x);
        l.expect("slice", &format!("slice(A, {}, {})", x, y), &list(a[x..y].to_vec()));
    }
    for (x, y) in [("2", "1"), ("0", "1e9"), ("-1", "2"), ("0.5", "1.5"), ("0/0", "1"), ("0", "inf")] {
        l.no_crash("slice-odd", &format!("slice(A, {}, {})", x, y), &[]);
    }
    // a slice that is returned for whole-number bounds start <= end has exactly end - start elements
    for (x, y) in [(0, len + 1), (0, len + 5), (len, len + 1), (len + 2, len + 4), (len / 2, len + 3), (len, len), (len + 1, len + 1)] {
        if let ROut::Ok(RVal::List(got)) = l.ev(&format!("slice(A, {}, {})", x, y)) {
            if got.len() != y - x {
                let mut c = l.ctx_desc.clone();
                c["source"] = json!(format!("slice(A, {}, {})", x, y));
                c["got_length"] = json!(got.len());
                l.sink.viol("law=slice-length-is-end-minus-start", "a slice was returned that does not hold end - start elements", c);
            }
        }
    }
    // flatten / chunk / zip
    let mut flat = Vec::new();
    for e in &a {
        match e {
            RVal::List(inner) => flat.extend(inner.iter().cloned()),
            other => flat.push(other.clone()),
        }
    }
    l.expect("flatten-one-level", "flatten(A)", &list(flat));
    for c in [1usize, 2, 3, 7, 64] {
        let chunks: Vec<RVal> = a.chunks(c).map(|ch| list(ch.to_vec())).collect();
        l.expect("chunk-definition", &format!("chunk(A, {})", c), &list(chunks));
        if !a.iter().any(|e| matches!(e, RVal::List(_))) {
            l.expect("flatten-chunk-identity", &format!("flatten(chunk(A, {}))", c), &list(a.clone()));
        }
    }
    l.no_crash("chunk-odd", "chunk(A, 0.5)", &[]);
    l.no_crash("chunk-odd", "chunk(A, -1)", &[]);
    l.no_crash("chunk-odd", "chunk(A, 0/0)", &[]);
    let zl = a.len().max(b.len());
    let zipped: Vec<RVal> = (0..zl).map(|k| list(vec![a.get(k).cloned().unwrap_or(RVal::Null), b.get(k).cloned().unwrap_or(RVal::Null)])).collect();
    l.expect("zip-pads-with-null", "zip(A, B)", &list(zipped));
    let zipped3: Vec<RVal> = (0..zl)
        .map(|k| list(vec![a.get(k).cloned().unwrap_or(RVal::Null), b.get(k).cloned().unwrap_or(RVal::Null), a.get(k).cloned().unwrap_or(RVal::Null)]))
        .collect();
    l.expect("zip-three", "zip(A, B, A)", &list(zipped3));
    // unique
    let mut uq: Vec<RVal> = Vec::new();
    for v in &a {
        if !uq.iter().any(|e| model::equal(e, v)) {
            uq.push(v.clone());
        }
    }
    l.expect("unique-first-of-class", "unique(A)", &list(uq));
    // sort: permutation; ordered + stable when comparable
    let comparable = (0..len).all(|x| (0..len).all(|y| model::compare(&a[x], &a[y]).is_some()));
    let sorted = l.ev("sort(A)");
    match &sorted {
        ROut::Ok(RVal::List(out)) => {
            let mut rest = a.clone();
            let mut perm = out.len() == a.len();
            for o in out {
                if let Some(p) = rest.iter().position(|x| x == o) {
                    rest.remove(p);
                } else {
                    perm = false;
                }
            }
            if !perm {
                l.sink.viol("law=sort-permutation", "sort output is not a permutation of its input", json!({"A": list(a.clone()).show(), "sorted": sorted.show()}));
            }
            if comparable {
                let mut exp = a.clone();
                exp.sort_by(|p, q| model::compare(p, q).unwrap());
                if &exp != out {
                    l.sink.viol("law=sort-stable-ordered", "sort is not the stable non-decreasing arrangement of comparable elements", json!({"A": list(a.clone()).show(), "sorted": sorted.show(), "expected": list(exp).show()}));
                }
            }
        }
        ROut::Panic(p) => l.sink.viol_for("C01", &format!("stage=evaluate {}", crate::props::c01::norm_panic(p)), "sort panicked", json!({"A": list(a.clone()).show()})),
        _ => l.sink.viol("law=sort-permutation", "sort of a list failed", json!({"A": list(a.clone()).show(), "sorted": sorted.show()})),
    }
    l.expect("sort-does-not-mutate", "A", &list(a.clone()));
    // stability of plain sort on long lists: elements that compare equal but are distinguishable (0 / -0, [0] / [-0])
    {
        let zl = 33 + r.below(40);
        let zs: Vec<RVal> = (0..zl).map(|_| match r.below(4) { 0 => n(0.0), 1 => n(-0.0), 2 => n(1.0), _ => n(-1.0) }).collect();
        let vz = mk_value(&sess.heap, &list(zs.clone()));
        sess.bind("Z", vz);
        let mut ez = zs.clone();
        ez.sort_by(|p, q| model::compare(p, q).unwrap());
        l.expect("sort-stable-long-list", "sort(Z)", &list(ez));
    }
    // sort_by with a key: stable permutation ordered by key (tagged elements expose stability)
    // up to 70 elements with few distinct keys: unstable sorting algorithms only show above ~20-32 elements
    let tlen = if r.chance(1, 2) { len } else { 33 + r.below(38) };
    let nkeys = 2 + r.below(4);
    let tagged: Vec<RVal> = (0..tlen).map(|k| list(vec![n(r.below(nkeys) as f64), n(k as f64)])).collect();
    let vt = mk_value(&sess.heap, &list(tagged.clone()));
    sess.bind("T", vt);
    let mut exp = tagged.clone();
    exp.sort_by(|p, q| {
        let (RVal::List(p), RVal::List(q)) = (p, q) else { return Ordering::Equal };
        model::compare(&p[0], &q[0]).unwrap()
    });
    l.expect("sort_by-stable-by-key", "sort_by(T, x => x[0])", &list(exp.clone()));
    l.expect("sort_by-does-not-mutate", "T", &list(tagged.clone()));
    let mut expd = tagged.clone();
    expd.sort_by(|p, q| {
        let (RVal::List(p), RVal::List(q)) = (p, q) else { return Ordering::Equal };
        model::compare(&q[0], &p[0]).unwrap()
    });
    l.expect("sort_by-negated-key", "sort_by(T, x => -x[0])", &list(expd));
    // group_by / count_by partition (key = typeof or parity)
    let keyfn = "x => typeof(x)";
    let mut groups: Vec<(String, Vec<RVal>)> = Vec::new();
    for e in &a {
        let k = match e {
            RVal::Num(_) => "number",
            RVal::Str(_) => "string",
            RVal::Bool(_) => "boolean",
            RVal::Null => "null",
            RVal::List(_) => "list",
            RVal::Rec(_) => "record",
            _ => "other",
        }
        .to_string();
        if let Some(g) = groups.iter_mut().find(|(kk, _)| *kk == k) {
            g.1.push(e.clone());
        } else {
            groups.push((k, vec![e.clone()]));
        }
    }
    l.expect("group_by-partition", &format!("group_by(A, {})", keyfn), &RVal::Rec(groups.iter().map(|(k, v)| (k.clone(), list(v.clone()))).collect()));
    l.expect("count_by-counts", &format!("count_by(A, {})", keyfn), &RVal::Rec(groups.iter().map(|(k, v)| (k.clone(), n(v.len() as f64))).collect()));
    // tagged groups: order of groups = first appearance, members in list order
    let mut tg: Vec<(String, Vec<RVal>)> = Vec::new();
    for e in &tagged {
        let RVal::List(p) = e else { continue };
        let RVal::Num(kb) = &p[0] else { continue };
        let k = format!("{}", f64::from_bits(*kb));
        if let Some(g) = tg.iter_mut().find(|(kk, _)| *kk == k) {
            g.1.push(e.clone());
        } else {
            tg.push((k, vec![e.clone()]));
        }
    }
    l.expect("group_by-order", "group_by(T, x => to_string(x[0]))", &RVal::Rec(tg.iter().map(|(k, v)| (k.clone(), list(v.clone()))).collect()));
    // includes
    if len > 0 {
        let pick = a[r.below(len)].clone();
        let vp = mk_value(&sess.heap, &pick);
        sess.bind("P", vp);
        l.expect_true("includes-member", "includes(A, P)");
    }
    l.expect("includes-absent", "includes(A, \"__absent__\")", &RVal::Bool(false));
}

fn range_laws(ctx: &Ctx, sink: &mut Sink, i: u64) {
    let mut r = Rng::derive(ctx.seed, "c14-range", i);
    let sess = Sess::new();
    let a = r.range(-30, 30);
    let b = a + r.range(0, 40);
    sink.case(&format!("range|{}|{}", a, b), b > a);
    let mut l = L { sess: &sess, sink, ctx_desc: json!({"a": a, "b": b}) };
    let lit = |x: i64| if x < 0 { format!("(-{})", -x) } else { format!("{}", x) };
    l.expect("range-two-args", &format!("range({}, {})", lit(a), lit(b)), &list((a..b).map(|x| n(x as f64)).collect()));
    if b >= 0 {
        l.expect("range-one-arg", &format!("range({})", b), &list((0..b).map(|x| n(x as f64)).collect()));
    }
    l.expect("range-length", &format!("len(range({}, {}))", lit(a), lit(b)), &n((b - a) as f64));
    for odd in ["range(0/0)", "range(1, 0/0)", "range(inf)", "range(3, 1)", "range(-1e30, 1e30)", "range(0.5, 3.5)", "range(-9.3e18, 9.3e18)", "range(0, 5e9)"] {
        if odd == "range(0, 5e9)" {
            continue; // a legitimate 40 GB request: resource exhaustion, not a crash class
        }
        l.no_crash("range-odd", odd, &[]);
    }
}

fn string_laws(ctx: &Ctx, sink: &mut Sink, i: u64) {
    let mut r = Rng::derive(ctx.seed, "c14-str", i);
    let sess = Sess::new();
    let sv = gen_string(&mut r);
    let d = r.pick(&[",", "", "a", "é", ", ", "ab", "😀", " "]).to_string();
    let vs = mk_value(&sess.heap, &s(&sv));
    let vd = mk_value(&sess.heap, &s(&d));
    sess.bind("S", vs);
    sess.bind("D", vd);
    let chars: Vec<String> = sv.chars().map(|c| c.to_string()).collect();
    let nch = chars.len();
    sink.case(&format!("string|{:?}|{:?}", sv, d), !sv.is_empty() && !is_ascii(&sv));
    if sink.want_sample() && !is_ascii(&sv) {
        sink.sample(json!({"part": "string-laws", "S": sv, "D": d}));
    }
    let mut l = L { sess: &sess, sink, ctx_desc: json!({"S": sv, "D": d}) };
    let charlist = list(chars.iter().map(|c| s(c)).collect());
    // what indexing and spreading expose
    l.expect("spread-string-chars", "[...S]", &charlist);
    for k in -(nch as i64) - 1..=(nch as i64) {
        let exp = if k >= 0 {
            chars.get(k as usize).map(|c| s(c)).unwrap_or(RVal::Null)
        } else {
            let j = nch as i64 + k;
            if j >= 0 { s(&chars[j as usize]) } else { RVal::Null }
        };
        let src = if k < 0 { format!("S[-{}]", -k) } else { format!("S[{}]", k) };
        l.expect("string-indexing", &src, &exp);
    }
    if nch > 0 {
        let inside: Vec<RVal> = chars.iter().map(|c| s(c)).collect();
        for x in [0.5f64, -0.5, -0.25, -0.999, 1.5, -1.5] {
            if x > nch as f64 - 1.0 || x < -(nch as f64) {
                continue;
            }
            let src = if x < 0.0 { format!("S[-{}]", -x) } else { format!("S[{}]", x) };
            l.no_crash("fractional-index-in-range-is-not-null", &src, &inside);
        }
    }
    // string functions describe the same sequence of characters
    let cls = if is_ascii(&sv) { "ascii" } else { "non-ascii" };
    l.expect(&format!("string-len-counts-characters {}", cls), "len(S)", &n(nch as f64));
    if nch > 0 {
        l.expect(&format!("string-head-is-first-character {}", cls), "head(S)", &s(&chars[0]));
        l.expect(&format!("string-tail-is-rest {}", cls), "tail(S)", &s(&chars[1..].concat()));
        l.expect(&format!("string-head-tail-rebuild {}", cls), "head(S) + tail(S)", &s(&sv));
    } else {
        l.expect("string-head-empty", "head(S)", &s(""));
        l.expect("string-tail-empty", "tail(S)", &s(""));
    }
    for _ in 0..3 {
        let x = r.below(nch + 1);
        let y = x + r.below(nch + 1 - x);
        l.expect(&format!("string-slice-by-characters {}", cls), &format!("slice(S, {}, {})", x, y), &s(&chars[x..y].concat()));
    }
    l.no_crash("string-slice-odd", "slice(S, 1, 0)", &[]);
    l.no_crash("string-slice-odd", "slice(S, 0, 99)", &[]);
    // a string spread into a record is the list of its characters spread into a record (same keys, same values, same order)
    l.expect_true(&format!("string-record-spread-is-character-list-spread {}", cls), "{...S} .== {...[...S]}");
    l.expect_true(&format!("string-record-spread-keys-in-order {}", cls), "keys({...S}) .== keys({...[...S]})");
    l.expect(&format!("string-record-spread-values-are-characters {}", cls), "values({...S})", &list(chars.iter().map(|c| s(c)).collect()));
    // bounds past the end, equal bounds, reversed bounds: whatever slice does with them, it does the same to a string as to
    // the list of that string's characters, and a slice that is returned has exactly end - start characters
    for (x, y) in [(0, nch + 1), (0, nch + 5), (nch, nch + 1), (nch + 2, nch + 4), (nch / 2, nch + 3), (nch, nch), (nch + 1, nch + 1), (0, 0), (1, 0), (nch + 3, nch)] {
        let on_string = l.ev(&format!("slice(S, {}, {})", x, y));
        let on_chars = l.ev(&format!("join(slice([...S], {}, {}), \"\")", x, y));
        let same = match (&on_string, &on_chars) {
            (ROut::Ok(p), ROut::Ok(q)) => p == q,
            (ROut::Err(_), ROut::Err(_)) => true,
            _ => false,
        };
        if !same {
            let mut c = l.ctx_desc.clone();
            c["source"] = json!(format!("slice(S, {}, {})", x, y));
            c["on_string"] = json!(on_string.show());
            c["on_list_of_characters"] = json!(on_chars.show());
            l.sink.viol(&format!("law=string-slice-agrees-with-slice-of-characters {}", cls), "slice treats a string differently from the list of its characters", c);
        }
        if let (ROut::Ok(RVal::Str(got)), true) = (&on_string, y >= x) {
            if got.chars().count() != y - x {
                let mut c = l.ctx_desc.clone();
                c["source"] = json!(format!("slice(S, {}, {})", x, y));
                c["got"] = json!(on_string.show());
                l.sink.viol(&format!("law=string-slice-length-is-end-minus-start {}", cls), "a slice was returned that does not hold end - start characters", c);
            }
        }
    }
    l.expect("join-split-identity", "join(split(S, D), D)", &s(&sv));
    let non_empty: Vec<RVal> = chars.iter().map(|c| s(c)).collect();
    l.expect("split-empty-delimiter-gives-characters", "split(S, \"\") where (c => c != \"\")", &list(non_empty));
    l.expect("join-of-characters", "join([...S], \"\")", &s(&sv));
    l.expect_eq("includes-substring", "includes(S, S)", &RVal::Bool(true));
}

fn record_laws(ctx: &Ctx, sink: &mut Sink, i: u64) {
    let mut r = Rng::derive(ctx.seed, "c14-rec", i);
    let sess = Sess::new();
    let nk = r.below(6);
    let mut es: Vec<(String, RVal)> = Vec::new();
    for _ in 0..nk {
        let k = match r.below(3) {
            0 => r.pick(&["a", "b", "c", "key", "x1"]).to_string(),
            1 => r.pick(&["with space", "", "0", "é", "if"]).to_string(),
            _ => gens::random_string(&mut r),
        };
        if es.iter().any(|(kk, _)| *kk == k) {
            continue;
        }
        es.push((k, gens::random_data(&mut r, 2, true)));
    }
    let rec = RVal::Rec(es.clone());
    let vr = mk_value(&sess.heap, &rec);
    sess.bind("R", vr);
    sink.case(&format!("record|{}", rec.show()), !es.is_empty());
    if sink.want_sample() && es.len() > 2 {
        sink.sample(json!({"part": "record-laws", "R": rec.show()}));
    }
    let mut l = L { sess: &sess, sink, ctx_desc: json!({"R": rec.show()}) };
    l.expect("keys", "keys(R)", &list(es.iter().map(|(k, _)| s(k)).collect()));
    l.expect("values", "values(R)", &list(es.iter().map(|(_, v)| v.clone()).collect()));
    let entries = list(es.iter().map(|(k, v)| list(vec![s(k), v.clone()])).collect());
    l.expect("entries", "entries(R)", &entries);
    l.expect("spread-record-pairs", "[...R]", &entries);
    l.expect("spread-record-into-record", "{...R}", &rec);
    for (k, v) in &es {
        let vk = mk_value(&sess.heap, &s(k));
        sess.bind("K", vk);
        l.expect("index-by-key", "R[K]", v);
        if crate::hexpr::is_plain_ident(k) && blots_core::functions::BuiltInFunction::from_ident(k).is_none() {
            l.expect("field-access", &format!("R.{}", k), v);
        }
    }
    l.expect("absent-field-null", "R.zz_absent_zz", &RVal::Null);
    l.expect("absent-key-null", "R[\"zz_absent_zz\"]", &RVal::Null);
    l.expect("keys-values-agree", "keys(R) via (k => R[k])", &list(es.iter().map(|(_, v)| v.clone()).collect()));
}

pub fn run(ctx: &Ctx, sink: &mut Sink) {
    let nl = ctx.budget(24_000, 3_000_000);
    for i in 0..nl {
        if ctx.mine(i) {
            list_laws(ctx, sink, i);
        }
    }
    let ns = ctx.budget(24_000, 3_000_000);
    for i in 0..ns {
        if ctx.mine(i) {
            string_laws(ctx, sink, i);
        }
    }
    let nr = ctx.budget(12_000, 1_500_000);
    for i in 0..nr {
        if ctx.mine(i) {
            record_laws(ctx, sink, i);
            range_laws(ctx, sink, i);
        }
    }
}
