//! C10 - fixed precedence table, layout-insensitive parsing, all plain names usable.

use crate::Ctx;
use crate::gens::{Gen, GenCfg, NAMES, Ty};
use crate::hexpr::*;
use crate::out::Sink;
use crate::rng::Rng;
use crate::rt::{Out, RVal, ROut, Sess, parse_program};
use serde_json::json;

fn parse1(src: &str) -> Result<H, String> {
    let v = parse_program(src)?;
    if v.len() != 1 {
        return Err(format!("expected 1 statement, parser produced {}", v.len()));
    }
    Ok(v.into_iter().next().unwrap())
}

fn contains_not(h: &H) -> bool {
    if matches!(h, H::Un(UOp::Not, _)) {
        return true;
    }
    let mut found = false;
    h.for_children(&mut |c| found = found || contains_not(c));
    found
}

fn check_tree(sink: &mut Sink, t: &H, class: &str) {
    check_tree_one(sink, t, class);
    // the same tree as the body of a function (function bodies have a grammar rule of their own, a copy of the expression rule)
    if !matches!(t, H::Lam(..)) {
        check_tree_one(sink, &lam1("p", t.clone()), &format!("{} in-lambda-body", class));
    }
    // and with prefix `not` spelled as a word
    if contains_not(t) {
        for (tree, cl) in [(t.clone(), format!("{} word-not", class)), (lam1("p", t.clone()), format!("{} word-not in-lambda-body", class))] {
            let mut pr = Printer::new(Mode::Min);
            pr.word_not = true;
            let text = pr.print_stmt(&tree);
            sink.case(&format!("table-word-not|{}", text), true);
            match parse1(&text) {
                Ok(a) if a == tree => {}
                Ok(a) => sink.viol(&format!("table grouping class={}", cl), "the word spelling of prefix not groups differently from the symbol spelling", json!({"text": text, "parsed_as": print_full(&a), "intended": print_full(&tree)})),
                Err(e) => sink.viol(&format!("table minimal-unparsable class={}", cl), "text with the word spelling of prefix not does not parse", json!({"text": text, "error": e})),
            }
        }
    }
}

fn check_tree_one(sink: &mut Sink, t: &H, class: &str) {
    let m = print_min(t);
    let p = print_full(t);
    let nontrivial = m != p;
    sink.case(&format!("table|{}", p), nontrivial);
    let pm = parse1(&m);
    let pp = parse1(&p);
    if sink.want_sample() && nontrivial {
        sink.sample(json!({"part": "table", "class": class, "minimal": m, "full": p}));
    }
    match (&pm, &pp) {
        (Ok(a), Ok(b)) => {
            if b != t {
                sink.viol(&format!("table full-parenthesised-misparsed class={}", class), "the fully parenthesised text does not parse to the intended tree", json!({"full": p, "parsed": print_full(b)}));
            }
            if a != t {
                sink.viol(&format!("table grouping class={}", class), "minimal and fully parenthesised forms (per the stated table) parse differently", json!({"minimal": m, "full": p, "minimal_parsed_as": print_full(a)}));
            }
        }
        (Err(e), _) => sink.viol(&format!("table minimal-unparsable class={}", class), "minimally parenthesised text does not parse", json!({"minimal": m, "full": p, "error": e})),
        (_, Err(e)) => sink.viol(&format!("table full-unparsable class={}", class), "fully parenthesised text does not parse", json!({"full": p, "error": e})),
    }
}

fn cls(ops: &[Op]) -> String {
    ops.iter().map(|o| format!("L{}{}", o.level(), if o.is_word() { "w" } else { "" })).collect::<Vec<_>>().join("/")
}

/// the same tree with its identifier leaves a / b / c / d replaced by literals (a prefix minus directly on a digit, a
/// postfix operator directly on a literal, a literal as call target ... are lexed differently from names)
fn literal_leaves(t: &H, kind: usize) -> H {
    fn m(h: &H, kind: usize) -> H {
        if let H::Id(n) = h {
            let k = match n.as_str() {
                "a" => 0,
                "b" => 1,
                "c" => 2,
                "d" => 3,
                _ => return h.clone(),
            };
            return match kind {
                0 => H::Num(F([3.0, 2.0, 5.0, 7.0][k])),
                1 => H::Num(F([0.0, 1.5, 10.0, 0.25][k])),
                2 => H::Str(["s", "", "t u", "é"][k].to_string()),
                3 => [H::Bool(true), H::Null, H::Bool(false), H::Null][k].clone(),
                _ => [H::List(vec![H::Num(F(1.0))]), H::Rec(vec![(Key::Static("k".into()), H::Num(F(1.0)))]), H::List(vec![]), H::Rec(vec![])][k].clone(),
            };
        }
        let mut kids: Vec<H> = Vec::new();
        h.for_children(&mut |c| kids.push(c.clone()));
        let mut out = h.clone();
        for (n, c) in kids.iter().enumerate() {
            out = replace_nth_child(&out, n, &m(c, kind));
        }
        out
    }
    m(t, kind)
}

const LEAF_KINDS: [&str; 5] = ["integers", "fractions-and-zero", "strings", "bool-null", "list-record-literals"];

fn check_tree_all_leaves(sink: &mut Sink, t: &H, class: &str) {
    check_tree(sink, t, class);
    for (k, name) in LEAF_KINDS.iter().enumerate() {
        check_tree(sink, &literal_leaves(t, k), &format!("{} leaves={}", class, name));
    }
}

fn part_table(ctx: &Ctx, sink: &mut Sink) {
    let a = || id("a");
    let b = || id("b");
    let c = || id("c");
    let d = || id("d");
    let mut idx = 0u64;
    // all ordered pairs, both shapes
    for &o1 in ALL_OPS.iter() {
        for &o2 in ALL_OPS.iter() {
            idx += 1;
            if !ctx.mine(idx) {
                continue;
            }
            check_tree_all_leaves(sink, &bin(o1, bin(o2, a(), b()), c()), &format!("pair-left {}", cls(&[o1, o2])));
            check_tree_all_leaves(sink, &bin(o1, a(), bin(o2, b(), c())), &format!("pair-right {}", cls(&[o1, o2])));
        }
    }
    // triples x 5 tree shapes: all ops in thorough, representatives of every level/assoc/spelling class in quick
    let reps: Vec<Op> = if ctx.quick {
        vec![Op::NAnd, Op::Or, Op::Via, Op::Where, Op::Eq, Op::DLt, Op::Add, Op::Sub, Op::Mul, Op::Mod, Op::Pow, Op::Coal]
    } else {
        ALL_OPS.to_vec()
    };
    for &o1 in &reps {
        for &o2 in &reps {
            for &o3 in &reps {
                idx += 1;
                if !ctx.mine(idx) {
                    continue;
                }
                let k = cls(&[o1, o2, o3]);
                let shapes = [
                    bin(o1, bin(o2, bin(o3, a(), b()), c()), d()),
                    bin(o1, bin(o2, a(), bin(o3, b(), c())), d()),
                    bin(o1, bin(o2, a(), b()), bin(o3, c(), d())),
                    bin(o1, a(), bin(o2, bin(o3, b(), c()), d())),
                    bin(o1, a(), bin(o2, b(), bin(o3, c(), d()))),
                ];
                for (i, s) in shapes.iter().enumerate() {
                    check_tree(sink, s, &format!("triple-shape{} {}", i, k));
                }
            }
        }
    }
    // prefix / postfix / binary / call / index / field combinations
    let un = |u: UOp, e: H| H::Un(u, Box::new(e));
    let fact = |e: H| H::Fact(Box::new(e));
    let idxe = |e: H| H::Index(Box::new(e), Box::new(H::Num(F(0.0))));
    let fld = |e: H| H::Field(Box::new(e), "k".to_string());
    let cl = |e: H| call(e, vec![id("x")]);
    for &u in &[UOp::Neg, UOp::Not] {
        for &o in ALL_OPS.iter() {
            idx += 1;
            if !ctx.mine(idx) {
                continue;
            }
            let k = format!("{:?}/{}", u, cls(&[o]));
            check_tree_all_leaves(sink, &un(u, bin(o, a(), b())), &format!("prefix-over-binary {}", k));
            check_tree_all_leaves(sink, &bin(o, un(u, a()), b()), &format!("binary-over-prefix-left {}", k));
            check_tree_all_leaves(sink, &bin(o, a(), un(u, b())), &format!("binary-over-prefix-right {}", k));
        }
        let k = format!("{:?}", u);
        check_tree_all_leaves(sink, &un(u, fact(a())), &format!("prefix-over-postfix {}", k));
        check_tree_all_leaves(sink, &fact(un(u, a())), &format!("postfix-over-prefix {}", k));
        check_tree_all_leaves(sink, &un(u, cl(id("f"))), &format!("prefix-over-call {}", k));
        check_tree_all_leaves(sink, &un(u, idxe(a())), &format!("prefix-over-index {}", k));
        check_tree_all_leaves(sink, &un(u, fld(a())), &format!("prefix-over-field {}", k));
        check_tree_all_leaves(sink, &cl(un(u, a())), &format!("call-over-prefix {}", k));
        check_tree_all_leaves(sink, &idxe(un(u, a())), &format!("index-over-prefix {}", k));
        check_tree_all_leaves(sink, &fld(un(u, a())), &format!("field-over-prefix {}", k));
        for &u2 in &[UOp::Neg, UOp::Not] {
            check_tree_all_leaves(sink, &un(u, un(u2, a())), &format!("prefix-over-prefix {}/{:?}", k, u2));
        }
    }
    for &o in ALL_OPS.iter() {
        idx += 1;
        if !ctx.mine(idx) {
            continue;
        }
        let k = cls(&[o]);
        check_tree_all_leaves(sink, &fact(bin(o, a(), b())), &format!("postfix-over-binary {}", k));
        check_tree_all_leaves(sink, &bin(o, fact(a()), b()), &format!("binary-over-postfix-left {}", k));
        check_tree_all_leaves(sink, &bin(o, a(), fact(b())), &format!("binary-over-postfix-right {}", k));
        check_tree_all_leaves(sink, &cl(bin(o, a(), b())), &format!("call-over-binary {}", k));
        check_tree_all_leaves(sink, &idxe(bin(o, a(), b())), &format!("index-over-binary {}", k));
        check_tree_all_leaves(sink, &fld(bin(o, a(), b())), &format!("field-over-binary {}", k));
        check_tree_all_leaves(sink, &bin(o, cl(id("f")), idxe(b())), &format!("binary-over-call-index {}", k));
        check_tree_all_leaves(sink, &bin(o, fld(a()), cl(id("g"))), &format!("binary-over-field-call {}", k));
    }
    check_tree_all_leaves(sink, &fact(fact(a())), "postfix-over-postfix");
    check_tree_all_leaves(sink, &fact(cl(id("f"))), "postfix-over-call");
    check_tree_all_leaves(sink, &cl(fact(a())), "call-over-postfix");
    check_tree_all_leaves(sink, &idxe(fact(a())), "index-over-postfix");
    check_tree(sink, &fld(cl(idxe(a()))), "field-call-index chain");
}

// ------------------------------------------------------------------------------------------------

#[derive(Clone, Copy, Debug, PartialEq, Eq)]
enum Layout {
    Spaces,
    Tabs,
    NewlineAtOps,
    NewlineInBrackets,
    NewlineCond,
    CommentBeforeBreak,
    RedundantParens,
    TrailingCommas,
    Mixed,
}

const LAYOUTS: [Layout; 9] = [
    Layout::Spaces, Layout::Tabs, Layout::NewlineAtOps, Layout::NewlineInBrackets, Layout::NewlineCond,
    Layout::CommentBeforeBreak, Layout::RedundantParens, Layout::TrailingCommas, Layout::Mixed,
];

fn decorate(stmt: &H, layout: Layout, r: &mut Rng, used: &mut Vec<String>) -> String {
    let mut rr = r.clone();
    r.next();
    let mut n_comment = 0;
    let mut deco = |g: Gap| -> Option<String> {
        let lay = if layout == Layout::Mixed {
            [Layout::Spaces, Layout::Tabs, Layout::NewlineAtOps, Layout::NewlineInBrackets, Layout::NewlineCond,
             Layout::CommentBeforeBreak, Layout::RedundantParens, Layout::TrailingCommas][rr.below(8)]
        } else {
            layout
        };
        if !rr.chance(1, 2) {
            return None;
        }
        let canon = g.canonical();
        let ws_ok = !matches!(g, Gap::AfterIndexOpen | Gap::BeforeIndexClose | Gap::MaybeParen | Gap::ListTrailingComma | Gap::RecTrailingComma | Gap::CallTrailingComma | Gap::DoAfterOpen | Gap::DoBeforeClose | Gap::DoBeforeStmt | Gap::DoBeforeReturn | Gap::DoStmtEol | Gap::ListLastItemEol | Gap::RecLastItemEol);
        // gaps where the grammar admits NEWLINE (with an optional end-of-line comment)
        let nl_ops = matches!(g, Gap::BeforeSymOp | Gap::AfterSymOp | Gap::BeforeWordOp);
        let nl_brackets = matches!(g, Gap::AfterOpenParen | Gap::BeforeCloseParen | Gap::AfterListOpen | Gap::AfterListComma | Gap::BeforeListClose
            | Gap::AfterRecOpen | Gap::AfterRecComma | Gap::BeforeRecClose | Gap::AfterRecColon | Gap::AfterArrow | Gap::AfterCallOpen | Gap::AfterCallComma | Gap::BeforeCallClose);
        let nl_index = matches!(g, Gap::AfterIndexOpen | Gap::BeforeIndexClose);
        let nl_cond = matches!(g, Gap::BeforeThen | Gap::AfterThen | Gap::BeforeElse | Gap::AfterElse);
        // inline comments (part of NEWLINE) are admitted everywhere NEWLINE is, except inside lists/records
        // where only the `comment` rule applies (kept in the AST, so equally harmless for this monitor)
        let list_like = matches!(g, Gap::AfterListOpen | Gap::AfterListComma | Gap::BeforeListClose | Gap::AfterRecOpen | Gap::AfterRecComma | Gap::BeforeRecClose);
        match lay {
            Layout::Spaces if ws_ok => {
                used.push(format!("spaces@{:?}", g));
                Some(format!("{}{}", canon, " ".repeat(1 + rr.below(3))))
            }
            Layout::Tabs if ws_ok => {
                used.push(format!("tab@{:?}", g));
                Some(format!("{}\t", canon))
            }
            Layout::NewlineAtOps if nl_ops => {
                used.push(format!("newline@{:?}", g));
                Some("\n  ".to_string())
            }
            Layout::NewlineInBrackets if nl_brackets => {
                used.push(format!("newline@{:?}", g));
                Some("\n  ".to_string())
            }
            Layout::NewlineInBrackets if nl_index => {
                used.push(format!("newline@{:?}", g));
                Some("\n".to_string())
            }
            Layout::NewlineCond if nl_cond => {
                used.push(format!("newline@{:?}", g));
                Some("\n  ".to_string())
            }
            Layout::CommentBeforeBreak if nl_ops || nl_cond || (nl_brackets && !list_like) => {
                n_comment += 1;
                used.push(format!("comment+newline@{:?}", g));
                Some(format!(" // c{}\n  ", n_comment))
            }
            Layout::CommentBeforeBreak if list_like => {
                n_comment += 1;
                used.push(format!("comment+newline@{:?}", g));
                Some(format!(" // c{}\n  ", n_comment))
            }
            Layout::RedundantParens if g == Gap::MaybeParen => {
                used.push("redundant-parens".to_string());
                Some("(".to_string())
            }
            Layout::TrailingCommas if matches!(g, Gap::ListTrailingComma | Gap::RecTrailingComma) => {
                used.push(format!("trailing-comma@{:?}", g));
                Some(",".to_string())
            }
            Layout::TrailingCommas if g == Gap::CallTrailingComma => {
                used.push("trailing-comma+newline@call".to_string());
                Some(",\n".to_string())
            }
            _ => None,
        }
    };
    let mut p = Printer::new(Mode::Min);
    p.deco = Some(&mut deco);
    p.print_stmt(stmt)
}

fn part_layout(ctx: &Ctx, sink: &mut Sink) {
    let n = ctx.budget(30_000, 6_000_000);
    let mut used_classes: std::collections::BTreeSet<String> = Default::default();
    for i in 0..n {
        if !ctx.mine(i) {
            continue;
        }
        let mut r = Rng::derive(ctx.seed, "c10-layout", i);
        let depth = 2 + r.below(4);
        let (stmts, _) = {
            let mut g = Gen::new(&mut r, GenCfg { inputs: true, ..GenCfg::default() });
            g.program(1 + i as usize % 3, depth, &NAMES)
        };
        for stmt in &stmts {
            let canon = print_min(stmt);
            let base = match parse1(&canon) {
                Ok(b) => b,
                Err(e) => {
                    sink.viol("layout canonical-unparsable", "canonical text of a generated program does not parse", json!({"text": canon, "error": e}));
                    continue;
                }
            };
            if &base != stmt {
                sink.viol("layout canonical-misparsed", "canonical (minimally parenthesised) text parses to a different tree than intended", json!({"text": canon, "intended": print_full(stmt), "parsed": print_full(&base)}));
                continue;
            }
            let lay = LAYOUTS[r.below(LAYOUTS.len())];
            let mut used = Vec::new();
            let mut deco_text = decorate(stmt, lay, &mut r, &mut used);
            let crlf = r.chance(1, 8);
            if crlf {
                deco_text = deco_text.replace('\n', "\r\n");
                used.push("CRLF".into());
            }
            let nontrivial = deco_text != canon;
            sink.case(&format!("layout|{}", deco_text), nontrivial);
            if !nontrivial {
                continue;
            }
            for u in &used {
                used_classes.insert(u.split('@').next().unwrap_or("").to_string() + "@" + u.split('@').nth(1).unwrap_or(""));
            }
            if sink.want_sample() {
                sink.sample(json!({"part": "layout", "class": format!("{:?}", lay), "canonical": canon, "decorated": deco_text}));
            }
            match parse1(&deco_text) {
                Ok(t) => {
                    if t != base {
                        sink.viol(&format!("layout changed-ast class={:?}", lay), "optional layout changed the parsed program", json!({"canonical": canon, "decorated": deco_text, "parsed": print_full(&t), "layout_used": used}));
                    }
                }
                Err(e) => {
                    // name the first class used so that the signature is specific
                    let first = used.first().cloned().unwrap_or_default();
                    sink.viol(&format!("layout rejected class={:?} first={}", lay, first.split('@').next().unwrap_or("")), "text with optional layout stops parsing", json!({"canonical": canon, "decorated": deco_text, "error": e, "layout_used": used}));
                }
            }
        }
    }
    sink.count("layout_position_classes_used", used_classes.len() as u64);
    sink.obs("layout-classes", json!(used_classes.iter().cloned().collect::<Vec<_>>()));
}

// ------------------------------------------------------------------------------------------------

fn swap_spelling(h: &H) -> H {
    fn m(h: &H) -> H {
        match h {
            H::Bin(op, l, r) => {
                let o = match op {
                    Op::And => Op::NAnd,
                    Op::NAnd => Op::And,
                    Op::Or => Op::NOr,
                    Op::NOr => Op::Or,
                    x => *x,
                };
                H::Bin(o, Box::new(m(l)), Box::new(m(r)))
            }
            H::Un(u, e) => H::Un(*u, Box::new(m(e))),
            H::Fact(e) => H::Fact(Box::new(m(e))),
            H::Spread(e) => H::Spread(Box::new(m(e))),
            H::List(xs) => H::List(xs.iter().map(m).collect()),
            H::Rec(es) => H::Rec(
                es.iter()
                    .map(|(k, v)| {
                        (
                            match k {
                                Key::Dyn(e) => Key::Dyn(Box::new(m(e))),
                                Key::Spread(e) => Key::Spread(Box::new(m(e))),
                                o => o.clone(),
                            },
                            m(v),
                        )
                    })
                    .collect(),
            ),
            H::Lam(a, b) => H::Lam(a.clone(), Box::new(m(b))),
            H::Cond(a, b, c) => H::Cond(Box::new(m(a)), Box::new(m(b)), Box::new(m(c))),
            H::Do(ss, r) => H::Do(ss.iter().map(m).collect(), Box::new(m(r))),
            H::Assign(n, v) => H::Assign(n.clone(), Box::new(m(v))),
            H::Output(v) => H::Output(Box::new(m(v))),
            H::Call(f, a) => H::Call(Box::new(m(f)), a.iter().map(m).collect()),
            H::Index(a, b) => H::Index(Box::new(m(a)), Box::new(m(b))),
            H::Field(a, f) => H::Field(Box::new(m(a)), f.clone()),
            o => o.clone(),
        }
    }
    m(h)
}

fn count_logic(h: &H) -> usize {
    let mut n = match h {
        H::Bin(Op::And | Op::NAnd | Op::Or | Op::NOr, ..) => 1,
        H::Un(UOp::Not, _) => 1,
        _ => 0,
    };
    h.for_children(&mut |c| n += count_logic(c));
    n
}

fn part_spellings(ctx: &Ctx, sink: &mut Sink) {
    let n = ctx.budget(24_000, 4_000_000);
    for i in 0..n {
        if !ctx.mine(i) {
            continue;
        }
        let mut r = Rng::derive(ctx.seed, "c10-spell", i);
        let sess = Sess::new();
        let _ = sess.eval("bl = [true, false, true]");
        let _ = sess.eval("bt = true");
        let _ = sess.eval("bf = false");
        let mut sc = crate::gens::Scope::new();
        sc.vars.push(("bt".into(), Ty::Bool));
        sc.vars.push(("bf".into(), Ty::Bool));
        let e = {
            let mut g = Gen::new(&mut r, GenCfg::default());
            let mut e = g.expr(Ty::Bool, 2 + i as usize % 3, &mut sc);
            // broadcast form on some cases
            if i % 5 == 0 {
                e = bin(*g.r.pick(&[Op::And, Op::NAnd, Op::Or, Op::NOr]), id("bl"), e);
            }
            if i % 7 == 0 {
                e = H::Un(UOp::Not, Box::new(e));
            }
            e
        };
        let logic = count_logic(&e);
        let t1 = {
            let mut p = Printer::new(Mode::Min);
            p.word_not = false;
            p.print_stmt(&e)
        };
        let t2 = {
            let mut p = Printer::new(Mode::Min);
            p.word_not = true;
            p.print_stmt(&swap_spelling(&e))
        };
        sink.case(&format!("spell|{}", t1), logic > 0 && t1 != t2);
        let o1 = sess.rout(&sess.eval(&t1));
        let o2 = sess.rout(&sess.eval(&t2));
        if sink.want_sample() && logic > 1 {
            sink.sample(json!({"part": "spellings", "symbols": t1, "words": t2, "result": o1.show()}));
        }
        if !o1.agrees(&o2) {
            sink.viol("spelling and/or/not", "word and symbol spellings of and/or/not evaluate differently", json!({"one": t1, "other": t2, "one_result": o1.show(), "other_result": o2.show()}));
        }
    }
}

// ------------------------------------------------------------------------------------------------

fn name_candidates(seed: u64, extra: usize) -> Vec<String> {
    let mut v = Vec::new();
    for w in RESERVED.iter() {
        for suf in ["x", "s", "1", "_", "_count", "ish", "able", "ed", "9z", "__"] {
            v.push(format!("{}{}", w, suf));
        }
        for pre in ["x", "_", "x_", "un", "and", "Z"] {
            v.push(format!("{}{}", pre, w));
        }
        v.push(w.to_uppercase());
        let mut c = w.chars();
        let first = c.next().unwrap().to_uppercase().to_string();
        v.push(format!("{}{}", first, c.as_str()));
    }
    // operator words that are not reserved (via / into / where), `inf`, and the dot-free spellings of other tokens
    for w in ["via", "into", "where", "inf", "infinity", "inputs", "constants"] {
        for suf in ["x", "s", "1", "_", "_count", "ble", "duct", "abouts", "ed"] {
            v.push(format!("{}{}", w, suf));
        }
        for pre in ["x", "_", "un"] {
            v.push(format!("{}{}", pre, w));
        }
    }
    // the operator words themselves: not reserved, so plain names
    for w in ["via", "into", "where"] {
        v.push(w.to_string());
    }
    for extra in ["android", "iffy", "orbit", "viable", "whereabouts", "intoxicated", "andromeda", "notable", "dozen", "thenceforth", "donut", "order", "notify", "nullable", "trueish", "falsey", "outputs", "returned", "thence", "elsewhere",
        "viaduct", "intox", "wherever", "infinite", "information", "constant", "input", "_", "__", "_1", "a1b2", "A", "Zz_9"] {
        v.push(extra.to_string());
    }
    let mut r = Rng::derive(seed, "c10-names", 0);
    let first: Vec<char> = "abcdefghijklmnopqrstuvwxyzABCDEFGHIJKLMNOPQRSTUVWXYZ_".chars().collect();
    let rest: Vec<char> = "abcdefghijklmnopqrstuvwxyzABCDEFGHIJKLMNOPQRSTUVWXYZ_0123456789".chars().collect();
    for _ in 0..extra {
        let n = 1 + r.below(9);
        let mut s = String::new();
        s.push(*r.pick(&first));
        for _ in 1..n {
            s.push(*r.pick(&rest));
        }
        v.push(s);
    }
    v.sort();
    v.dedup();
    v.retain(|n| {
        is_plain_ident(n)
            && blots_core::functions::BuiltInFunction::from_ident(n).is_none()
            && !["inputs", "constants", "inf", "infinity", "zzp", "zzt", "copy_of_it", "q"].contains(&n.as_str())
    });
    v
}

fn part_names(ctx: &Ctx, sink: &mut Sink) {
    let names = name_candidates(ctx.seed, ctx.budget(1500, 150_000) as usize);
    let seven = ROut::Ok(RVal::num(7.0));
    // (position class, template, expected)
    let templates: Vec<(&str, &str, ROut)> = vec![
        ("statement", "N", seven.clone()),
        ("binary-left", "N + 1", ROut::Ok(RVal::num(8.0))),
        ("binary-right", "1 + N", ROut::Ok(RVal::num(8.0))),
        ("binary-right-nospace", "1+N", ROut::Ok(RVal::num(8.0))),
        ("power-right", "2 ^ N", ROut::Ok(RVal::num(128.0))),
        ("comparison-left", "N == 7", ROut::Ok(RVal::Bool(true))),
        ("comparison-right", "7 .== N", ROut::Ok(RVal::Bool(true))),
        ("word-op-left", "N == 7 and true", ROut::Ok(RVal::Bool(true))),
        ("word-op-right", "true and N == 7", ROut::Ok(RVal::Bool(true))),
        ("or-right", "false or N == 7", ROut::Ok(RVal::Bool(true))),
        ("not-word", "not (N == 8)", ROut::Ok(RVal::Bool(true))),
        ("prefix-neg", "-N", ROut::Ok(RVal::num(-7.0))),
        ("prefix-not", "!(N == 8)", ROut::Ok(RVal::Bool(true))),
        ("postfix-fact", "N!", ROut::Ok(RVal::num(5040.0))),
        ("call-arg", "abs(N)", seven.clone()),
        ("call-arg-second", "max(1, N)", seven.clone()),
        ("list-item-first", "[N, 1][0]", seven.clone()),
        ("list-item-last", "[1, N][1]", seven.clone()),
        ("record-value", "{a: N}.a", seven.clone()),
        ("record-shorthand", "{N}.N", seven.clone()),
        ("record-key", "{N: 1}.N", ROut::Ok(RVal::num(1.0))),
        ("index", "[10, 20, 30, 40, 50, 60, 70, 80][N]", ROut::Ok(RVal::num(80.0))),
        ("parenthesised", "(N)", seven.clone()),
        ("lambda-body", "(zzp => N + zzp)(1)", ROut::Ok(RVal::num(8.0))),
        ("lambda-arg-value", "(zzp => zzp)(N)", seven.clone()),
        ("cond-if", "if N == 7 then 1 else 0", ROut::Ok(RVal::num(1.0))),
        ("cond-then", "if true then N else 0", seven.clone()),
        ("cond-else", "if false then 0 else N", seven.clone()),
        ("do-statement", "do {\n  zzt = N\n  return zzt\n}", seven.clone()),
        ("do-return", "do {\n  return N\n}", seven.clone()),
        ("via-left", "[N] via (zzp => zzp + 1)", ROut::Ok(RVal::List(vec![RVal::num(8.0)]))),
        ("into-left", "N into (zzp => zzp)", seven.clone()),
        ("coalesce-left", "N ?? 1", seven.clone()),
        ("coalesce-right", "null ?? N", seven.clone()),
        ("spread", "[...[N]][0]", seven.clone()),
        ("assignment-value", "copy_of_it = N", seven.clone()),
        ("output", "output N", seven.clone()),
    ];
    for (ni, name) in names.iter().enumerate() {
        if !ctx.mine(ni as u64) {
            continue;
        }
        let sess = Sess::new();
        let b = sess.rout(&sess.eval(&format!("{} = 7", name)));
        let derived = RESERVED.iter().any(|w| name.contains(w));
        sink.case(&format!("name|{}", name), derived);
        if !b.agrees(&seven) {
            sink.viol(&format!("name cannot-bind {}", name_class(name)), "a plain name cannot be bound", json!({"name": name, "out": b.show()}));
            continue;
        }
        if sink.want_sample() && derived {
            sink.sample(json!({"part": "names", "name": name, "positions": templates.len()}));
        }
        for (pos, t, exp) in &templates {
            let src = subst_name(t, name);
            let o = sess.rout(&sess.eval(&src));
            if !o.agrees(exp) {
                sink.viol(&format!("name unusable {}", name_class(name)), "a bound plain name cannot be referenced in an expression position", json!({"name": name, "position": pos, "source": src, "got": o.show(), "expected": exp.show()}));
                break;
            }
        }
        // the name at the START of a statement that is not the first line of its program, and as a bare do-block statement:
        // the whole text is parsed as one program, so a line that begins with the name must not be read as the
        // continuation of the line before it
        {
            let prog = format!(
                "zz_a = 10\n{n} = 7\nzz_b = {n} + 1\n{n}\nzz_c = [1, 2]\n{n} == 7\nzz_e = true\n{n}_tail = 3\nzz_d = do {{\n  zz_t = 1\n  {n}\n  zz_u = 2\n  {n}_local = zz_u\n  return {n} + zz_t + {n}_local\n}}",
                n = name
            );
            let s3 = Sess::new();
            let expected = vec![ROut::Ok(RVal::num(10.0)), seven.clone(), ROut::Ok(RVal::num(8.0)), seven.clone(), ROut::Ok(RVal::List(vec![RVal::num(1.0), RVal::num(2.0)])), ROut::Ok(RVal::Bool(true)), ROut::Ok(RVal::Bool(true)), ROut::Ok(RVal::num(3.0)), ROut::Ok(RVal::num(10.0))];
            let got: Vec<ROut> = match s3.run(&prog, false) {
                Ok(outs) => outs.iter().map(|o| s3.rout(&o.out)).collect(),
                Err(e) => vec![ROut::Err(format!("PARSE: {}", e))],
            };
            let same = got.len() == expected.len() && got.iter().zip(expected.iter()).all(|(g, e)| g.agrees(e));
            if !same {
                sink.viol(&format!("name unusable {}", name_class(name)), "a statement that starts with a plain name on a later line of a program is not read as its own statement", json!({"name": name, "position": "statement-start-after-another-statement", "program": prog, "got": got.iter().map(|g| g.show()).collect::<Vec<_>>(), "expected_statements": expected.len()}));
            }
        }
        // as a parameter and as a do-block local, in a fresh session (no outer binding)
        let s2 = Sess::new();
        for (pos, src, exp) in [
            ("parameter", format!("({} => {} + 1)(1)", name, name), ROut::Ok(RVal::num(2.0))),
            ("parameter-list", format!("((q, {}) => {} + q)(1, 2)", name, name), ROut::Ok(RVal::num(3.0))),
            ("optional-parameter", format!("(({}?) => {})()", name, name), ROut::Ok(RVal::Null)),
            ("rest-parameter", format!("((...{}) => {})(1)", name, name), ROut::Ok(RVal::List(vec![RVal::num(1.0)]))),
            ("do-local", format!("do {{\n  {} = 3\n  return {} * 2\n}}", name, name), ROut::Ok(RVal::num(6.0))),
            ("output-assignment", format!("output {} = 7", name), seven.clone()),
        ] {
            let o = s2.rout(&s2.eval(&src));
            if !o.agrees(&exp) {
                sink.viol(&format!("name unusable {}", name_class(name)), "a plain name cannot be used as parameter / local", json!({"name": name, "position": pos, "source": src, "got": o.show(), "expected": exp.show()}));
                break;
            }
        }
    }
    let _ = Out::Panic(String::new());
}

fn name_class(name: &str) -> String {
    for w in RESERVED.iter() {
        if name.starts_with(w) {
            return format!("reserved-prefix={}", w);
        }
    }
    for w in RESERVED.iter() {
        if name.ends_with(w) {
            return format!("reserved-suffix={}", w);
        }
    }
    format!("name={}", name)
}

fn subst_name(t: &str, name: &str) -> String {
    // replace the standalone placeholder `N`
    let cs: Vec<char> = t.chars().collect();
    let mut out = String::new();
    for (i, c) in cs.iter().enumerate() {
        let prev = if i > 0 { cs[i - 1] } else { ' ' };
        let next = if i + 1 < cs.len() { cs[i + 1] } else { ' ' };
        if *c == 'N' && !(prev.is_alphanumeric() || prev == '_') && !(next.is_alphanumeric() || next == '_') {
            out.push_str(name);
        } else {
            out.push(*c);
        }
    }
    out
}

/// Compact spelling: the spaces the canonical text puts around symbol operators are optional layout. Only joints that
/// cannot form another token are used: the left operand ends in a name / digit / closing bracket / postfix `!`, the right
/// one starts with a name / digit / opening bracket / quote, and operators whose first character could extend the left
/// token (`!=` after anything, `-` `.`-operators) are left out.
fn part_compact(ctx: &Ctx, sink: &mut Sink) {
    if ctx.shard_i != 0 {
        return;
    }
    let ops: [(&str, Op); 13] = [
        ("+", Op::Add), ("*", Op::Mul), ("/", Op::Div), ("%", Op::Mod), ("^", Op::Pow), ("==", Op::Eq), ("<", Op::Lt), (">", Op::Gt), ("<=", Op::Le), (">=", Op::Ge),
        ("??", Op::Coal), ("&&", Op::And), ("||", Op::Or),
    ];
    let lefts: Vec<H> = vec![
        id("n"), H::Num(F(24.0)), H::Num(F(1.5)), call(id("f"), vec![H::Num(F(3.0))]), H::Index(Box::new(id("xs")), Box::new(H::Num(F(0.0)))), H::Fact(Box::new(id("n"))),
        H::Fact(Box::new(H::Num(F(3.0)))), H::Fact(Box::new(call(id("f"), vec![id("x")]))), H::Field(Box::new(id("r")), "k".into()), H::List(vec![H::Num(F(1.0))]),
    ];
    let rights: Vec<H> = vec![id("m"), H::Num(F(24.0)), H::Num(F(0.5)), call(id("g"), vec![id("y")]), H::List(vec![H::Num(F(2.0))]), H::Str("s".into())];
    for (sym, op) in ops.iter() {
        for l in lefts.iter() {
            for r in rights.iter() {
                let tree = bin(*op, l.clone(), r.clone());
                let spaced = print_min(&tree);
                let compact = format!("{}{}{}", print_min(l), sym, print_min(r));
                sink.case(&format!("compact|{}", compact), true);
                match (parse1(&spaced), parse1(&compact)) {
                    (Ok(a), Ok(b)) if a == b => {}
                    (Ok(_), other) => sink.viol(
                        &format!("layout compact-operator op={}", sym),
                        "leaving out the optional spaces around a symbol operator changes the parsed program",
                        json!({"with_spaces": spaced, "without_spaces": compact, "without_spaces_parses_as": match other { Ok(b) => print_full(&b), Err(e) => format!("parse error: {}", e.chars().take(120).collect::<String>()) }}),
                    ),
                    (Err(_), _) => {}
                }
                // and inside a longer chain
                for (sym2, op2) in [("+", Op::Add), ("==", Op::Eq), ("&&", Op::And)] {
                    let t3 = bin(op2, tree.clone(), id("z"));
                    let spaced3 = print_min(&t3);
                    // the minimal printer decides the parentheses; only the spaces are removed
                    let compact3: String = {
                        let mut out = String::new();
                        let cs: Vec<char> = spaced3.chars().collect();
                        let mut i = 0;
                        while i < cs.len() {
                            let two = sym.len() == 2 && i + 3 < cs.len() && cs[i] == ' ' && cs[i + 1..].starts_with(&sym.chars().collect::<Vec<_>>()[..]) && cs[i + 1 + sym.len()] == ' ';
                            let one = sym.len() == 1 && i + 2 < cs.len() && cs[i] == ' ' && cs[i + 1] == sym.chars().next().unwrap() && cs[i + 2] == ' ';
                            if two || one {
                                out.push_str(sym);
                                i += 2 + sym.len();
                            } else {
                                out.push(cs[i]);
                                i += 1;
                            }
                        }
                        out
                    };
                    if compact3 == spaced3 || sym2.is_empty() {
                        continue;
                    }
                    if let (Ok(a), got) = (parse1(&spaced3), parse1(&compact3)) {
                        if got.as_ref().ok() != Some(&a) {
                            sink.viol(
                                &format!("layout compact-operator op={}", sym),
                                "leaving out the optional spaces around a symbol operator changes the parsed program",
                                json!({"with_spaces": spaced3, "without_spaces": compact3, "without_spaces_parses_as": match got { Ok(b) => print_full(&b), Err(e) => format!("parse error: {}", e.chars().take(120).collect::<String>()) }}),
                            );
                        }
                    }
                }
            }
        }
    }
}

/// Optional spaces inside a lambda's parameter list (around `?`, after `...`, around commas and parentheses) do not change
/// the parsed function.
fn part_parameter_list_layout(ctx: &Ctx, sink: &mut Sink) {
    if ctx.shard_i != 0 {
        return;
    }
    let pairs: [(&str, &str); 12] = [
        ("(x?) => x ?? 7", "(x ?) => x ?? 7"),
        ("(x?) => x ?? 7", "( x? ) => x ?? 7"),
        ("(...rest) => rest", "(... rest) => rest"),
        ("(...rest) => rest", "( ...rest ) => rest"),
        ("(x?, ...rest) => [x, rest]", "(x ?, ... rest) => [x, rest]"),
        ("(a, b?, ...c) => [a, b, c]", "( a , b ? , ... c ) => [a, b, c]"),
        ("(a, b?, ...c) => [a, b, c]", "(a,b?,...c) => [a, b, c]"),
        ("(a, b) => a + b", "( a,b )=>a + b"),
        ("(a, b) => a + b", "(a ,b) =>  a + b"),
        ("x => x + 1", "x=>x + 1"),
        ("(x?) => x", "(x\t?) => x"),
        ("(a, b?, ...c) => [a, b, c]", "(\n  a,\n  b?,\n  ...c\n) => [a, b, c]"),
    ];
    for (canon, variant) in pairs.iter() {
        for wrap in ["f = {}", "[1, 2] via {}", "g({}, 3)", "{k: {}}"] {
            let a = wrap.replace("{}", &format!("({})", canon));
            let b = wrap.replace("{}", &format!("({})", variant));
            sink.case(&format!("paramlayout|{}", b), true);
            match (parse1(&a), parse1(&b)) {
                (Ok(x), Ok(y)) if x == y => {}
                (Ok(_), other) => sink.viol(
                    "layout parameter-list",
                    "optional spaces inside a lambda's parameter list change the parsed function",
                    json!({"canonical": a, "variant": b, "variant_parses_as": match other { Ok(y) => print_full(&y), Err(e) => format!("parse error: {}", e.chars().take(160).collect::<String>()) }}),
                ),
                (Err(_), _) => {}
            }
        }
    }
}

/// Statement separation: a program is its statements, one per line. Parsing the whole text gives exactly the trees the
/// statements give when parsed alone (only statements that start with a letter are joined: a line that starts with an
/// operator continues the line before it by design).
fn part_separation(ctx: &Ctx, sink: &mut Sink) {
    let n = ctx.budget(6_000, 2_000_000);
    for i in 0..n {
        if !ctx.mine(i) {
            continue;
        }
        let mut r = Rng::derive(ctx.seed, "c10-separation", i);
        let depth = 1 + r.below(4);
        let (stmts, _) = {
            let mut g = Gen::new(&mut r, GenCfg { inputs: true, odd_strings: i % 3 == 0, ..GenCfg::default() });
            g.program(2 + r_below(i, 5), depth, &NAMES)
        };
        let mut texts: Vec<String> = Vec::new();
        let mut trees: Vec<H> = Vec::new();
        for st in &stmts {
            let t = print_min(st);
            if !t.chars().next().map(|c| c.is_ascii_alphabetic()).unwrap_or(false) {
                continue;
            }
            if let Ok(h) = parse1(&t) {
                texts.push(t);
                trees.push(h);
            }
        }
        if texts.len() < 2 {
            continue;
        }
        let sep = if i % 4 == 1 { "\n\n" } else { "\n" };
        let prog = texts.join(sep);
        sink.case(&format!("sep|{}", prog), true);
        match crate::rt::parse_program(&prog) {
            Ok(whole) if whole == trees => {}
            Ok(whole) => sink.viol(
                "statement-separation",
                "a program parsed as a whole is not the sequence of its statements parsed one by one",
                json!({"program": prog, "statements": texts.len(), "statements_in_whole": whole.len(), "first_difference": whole.iter().zip(trees.iter()).position(|(a, b)| a != b)}),
            ),
            Err(e) => sink.viol("statement-separation", "a program made of statements that parse one by one does not parse as a whole", json!({"program": prog, "error": e.chars().take(300).collect::<String>()})),
        }
    }
}

fn r_below(i: u64, n: u64) -> usize {
    (i % n) as usize
}

pub fn run(ctx: &Ctx, sink: &mut Sink) {
    let part = ctx.opt("part").unwrap_or("all").to_string();
    if part == "all" || part == "separation" {
        part_separation(ctx, sink);
    }
    if part == "all" || part == "compact" {
        part_compact(ctx, sink);
        part_parameter_list_layout(ctx, sink);
    }
    if part == "all" || part == "table" {
        part_table(ctx, sink);
    }
    if part == "all" || part == "layout" {
        part_layout(ctx, sink);
    }
    if part == "all" || part == "spellings" {
        part_spellings(ctx, sink);
    }
    if part == "all" || part == "names" {
        part_names(ctx, sink);
    }
}
