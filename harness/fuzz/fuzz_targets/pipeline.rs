#![no_main]
//! libFuzzer target (C01 thorough): coverage-guided source texts through parse -> AST -> evaluate ->
//! serialise -> format. A crash here is only a *candidate*: every artefact is replayed through the
//! pinned-toolchain probe (`probe C01 --part replay`), whose monitors give the verdict.
use blots_core::environment::Environment;
use blots_core::expressions::{evaluate_pairs, pairs_to_expr_with_comments};
use blots_core::formatter::format_expr;
use blots_core::heap::Heap;
use blots_core::parser::{get_pairs, Rule};
use blots_core::values::SerializableValue;
use libfuzzer_sys::fuzz_target;
use std::cell::RefCell;
use std::rc::Rc;

fuzz_target!(|data: &[u8]| {
    let Ok(src) = std::str::from_utf8(data) else { return };
    if src.len() > 600 {
        return;
    }
    // keep the fuzzer away from legitimate resource exhaustion (not a crash class)
    if src.contains("range") || src.contains("!") && src.chars().filter(|c| c.is_ascii_digit()).count() > 2 || src.contains("=>") && src.contains("(") && src.len() > 300 {
        return;
    }
    let Ok(pairs) = get_pairs(src) else { return };
    let heap = Rc::new(RefCell::new(Heap::new()));
    let env = Rc::new(Environment::new());
    let inputs = heap.borrow_mut().insert_record(Default::default());
    env.insert("inputs".to_string(), inputs);
    for pair in pairs {
        if pair.as_rule() != Rule::statement {
            continue;
        }
        let Some(inner) = pair.into_inner().next() else { continue };
        if !matches!(inner.as_rule(), Rule::expression | Rule::output_declaration) {
            continue;
        }
        if let Ok(ast) = pairs_to_expr_with_comments(inner.clone().into_inner()) {
            for w in [Some(1), Some(30), None] {
                let _ = format_expr(&ast, w);
            }
        }
        if let Ok(v) = evaluate_pairs(inner.into_inner(), Rc::clone(&heap), Rc::clone(&env), 0, src) {
            let h = heap.borrow();
            let _ = v.stringify_for_display(&h);
            if let Ok(sv) = SerializableValue::from_value(&v, &h) {
                let _ = serde_json_to_string(&sv);
            }
        }
        blots_core::functions::clear_function_call_stats();
    }
});

fn serde_json_to_string(sv: &SerializableValue) -> String {
    sv.to_json().to_string()
}
