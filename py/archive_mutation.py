#!/usr/bin/env python3
"""archive_mutation.py <worktree> <seeded-id> <first-result> <final-result> <checks-that-catch> [note]
copies patch.diff, the demonstration and meta.json into /verif/seeded/<id>/ and records what was run."""
import json, os, shutil, sys
wt, sid, first, final, catchers = sys.argv[1:6]
note = sys.argv[6] if len(sys.argv) > 6 else ""
src = os.path.join(wt, "MUTATION")
dst = os.path.join("/verif/seeded", sid)
os.makedirs(dst, exist_ok=True)
for f in os.listdir(src):
    if f.startswith("."):
        continue
    p = os.path.join(src, f)
    if os.path.isfile(p) and os.path.getsize(p) < 200000:
        shutil.copy(p, os.path.join(dst, f))
meta_p = os.path.join(dst, "meta.json")
try:
    meta = json.load(open(meta_p))
except Exception:
    meta = {}
meta.update({
    "seeded_id": sid,
    "confirmed_by_me": "applied MUTATION/patch.diff in a scratch worktree: `cargo test --workspace --no-fail-fast --offline < /dev/null` = 435 passed / 0 failed; demo fails with the change and passes after `git apply -R`",
    "checks_run": "git -C /repo apply patch.diff; ./check <id> --tier quick; git -C /repo checkout -- .",
    "first_result": first,
    "final_result": final,
    "caught_by": catchers.split(","),
    "note": note,
})
json.dump(meta, open(meta_p, "w"), indent=1)
print("archived", sid, sorted(os.listdir(dst)))
