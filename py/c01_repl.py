"""C01, interactive leg: the REPL of the real CLI on a pseudo-terminal.

The REPL is a stage of its own: it reads lines through rustyline (with the Blots syntax highlighter and completer attached),
decides whether a statement continues on the next line, evaluates, and prints every result through the highlighter
(`highlight_result`, regular expressions over the displayed text). None of that code runs in file / inline / -e mode.
A sample of the probe's sources is typed into it, in sessions of a few sources each; half of the sessions run with TERM=dumb
(plain line reading), half with TERM=xterm-256color (live highlighting of every keystroke). Oracle: the process never dies
(no panic exit, no signal) and exits 0 at end of input. A session that stops answering is inconclusive, not a violation."""
import os
import time

import common
from c03 import Repl, ANSI

BAD = {101: "panic (exit 101)", -6: "SIGABRT", -11: "SIGSEGV", -4: "SIGILL", -7: "SIGBUS", 134: "abort (134)", 139: "segfault (139)"}

# statements whose *results* are awkward to display / highlight
DISPLAY = [
    '"a // not a comment"', "'single \" inside'", '"double \' inside"', '["#x", "1e5", "0x1F", "true and false"]', '{"//": 1, "k k": "#y"}',
    '"multi\nline"', "x => x + 1", "[x => x, (a, b?) => a]", "1e300 * 1e300", "0 / 0", "-0", "[1, [2, [3, [4, [5]]]]]", '"\t tab"',
    '{a: {b: {c: "deep // #ref"}}}', '"é日本😀"', "[null, true, 1.5e-7, \"1,234\"]", "format(\"{} // {}\", 1, \"#z\")", "constants", "inputs",
    "typeof", "[sum, map]", '"unterminated', "'unterminated", "((((", "]]]]", "#", "#1", "# x", "output", "output output", "do {", "}", "=> =>",
]


def session(job):
    binary, term, sources = job
    env_term = {"dumb": "dumb", "xterm": "xterm-256color"}[term]
    repl = Repl(binary, term=env_term)
    if not repl.start():
        repl.finish()
        return ("inconclusive", "the REPL did not show a prompt", 0)
    typed = 0
    for src in sources:
        for ln in src.split("\n"):
            if len(ln) > 400 or "\x00" in ln or "\x04" in ln or "\x03" in ln or "\x1b" in ln:
                ln = "1"   # control characters are editing commands for a terminal, not input text
            alive, text = repl.line(ln.replace("\r", " ").replace("\t", "    "))
            typed += 1
            if not alive:
                rc, tail = repl.finish()
                if rc in BAD:
                    return ("viol", f"repl-crash term={term} {BAD[rc]}", {"term": env_term, "source": src[:600], "line": ln[:300], "exit": rc, "tail": ANSI.sub("", text + tail)[-500:]}, typed)
                return ("inconclusive", f"the REPL stopped answering (exit {rc}) after: {ln[:120]!r}", typed)
        # leave a continuation (unbalanced input) before the next source
        for _ in range(3):
            if ANSI.sub("", repl.buf.decode("utf-8", "replace")).rstrip(" ").endswith("..."):
                repl.line("")
            else:
                break
    rc, tail = repl.finish()
    if rc in BAD:
        return ("viol", f"repl-crash term={term} {BAD[rc]}", {"term": env_term, "sources": [s[:200] for s in sources[-3:]], "exit": rc, "tail": tail[-500:]}, typed)
    if rc != 0:
        return ("inconclusive", f"REPL session ended with exit {rc}", typed)
    return ("ok", None, typed)


def repl_leg(ctx, res):
    srcs = [r["source"] for r in res.recs if r.get("kind") == "cli-src" and r.get("source") and len(r["source"]) < 1500]
    per = 6
    nsess = 60 if ctx["tier"] == "quick" else 600
    jobs = []
    for i in range(nsess):
        chunk = srcs[i * per:(i + 1) * per]
        if not chunk and i >= len(DISPLAY) // per + 1:
            break
        extra = DISPLAY[(i * per) % len(DISPLAY):][:per]
        jobs.append((ctx["cli"], "dumb" if i % 2 == 0 else "xterm", extra + chunk))
    t0 = time.time()
    results = common.pmap(session, jobs, workers=min(16, ctx["ncpu"]))
    lines = ok = 0
    for r in results:
        if r[0] == "viol":
            _, sig, case, n = r
            lines += n
            res.viols.append({"t": "viol", "prop": "C01", "sig": sig, "what": "the interactive REPL crashed", "case": case})
        elif r[0] == "inconclusive":
            lines += r[2]
            res.inconclusive_cases.append("REPL leg: " + r[1])
        else:
            ok += 1
            lines += r[2]
    return {"sessions": len(jobs), "sessions_completed": ok, "lines_typed": lines, "seconds": round(time.time() - t0, 1),
            "terminals": ["dumb (plain line reading)", "xterm-256color (rustyline editing + live highlighting)"]}
