"""C15 offline oracle: aggregates against exact rational arithmetic (fractions.Fraction)."""
import math
from fractions import Fraction

import offline_util as U

EPS = Fraction(1, 2 ** 53)


def val(h):
    if h in ("err", "panic", "non-number", "other"):
        return h
    return U.bits_to_float(h)


def worker(path):
    viols, checked = [], 0
    for ev in U.iter_recs(path, ("c15",)):
        checked += 1
        xs = [U.bits_to_float(h) for h in ev["xs"]]
        n = len(xs)
        case = {"list": [repr(x) for x in xs], "regime": ev["regime"]}
        finite = all(math.isfinite(x) for x in xs)

        def bad(sig, what, **kw):
            viols.append({"sig": sig, "what": what, "case": dict(case, **kw)})

        got = {f: val(ev[f]) for f in ("sum", "prod", "avg", "min", "max", "median")}
        sh = {f: val(ev[f + "_shuffled"]) for f in ("sum", "prod", "avg", "min", "max", "median")}
        if any(isinstance(v, str) for v in got.values()):
            bad("aggregate-failed", "an aggregate failed on a non-empty list of numbers", results={k: repr(v) for k, v in got.items()})
            continue
        # ---- min / max: elements bounding all others
        if not (any(got["min"] == x for x in xs) and all(got["min"] <= x for x in xs)):
            bad("min-not-least-element", "min is not an element bounding all others", min=repr(got["min"]))
        if not (any(got["max"] == x for x in xs) and all(got["max"] >= x for x in xs)):
            bad("max-not-greatest-element", "max is not an element bounding all others", max=repr(got["max"]))
        # ---- avg = sum / count also where the sum is not finite (an infinite element, or magnitudes whose sum overflows):
        # an infinity or NaN divided by the count is that same infinity / NaN
        for which, g in (("list", got), ("permuted", sh)):
            sm, av = g["sum"], g["avg"]
            if isinstance(sm, str) or isinstance(av, str) or math.isfinite(sm):
                continue
            if not ((math.isnan(sm) and math.isnan(av)) or sm == av):
                bad("avg-not-sum-over-count non-finite-sum", "avg is not sum divided by the count", which=which, avg=repr(av), sum=repr(sm), n=n)
        if finite:
            ex = [Fraction(x) for x in xs]
            abs_sum = sum(abs(e) for e in ex)
            s_exact = sum(ex)
            # ---- sum: |sum - exact| <= n * eps * sum|x|
            tol = n * EPS * abs_sum
            # (when the magnitudes add up to more than a double can hold, a partial sum may overflow whatever the exact total
            # is: the rounding bound says nothing there, only "avg = sum / count" above applies)
            sum_rules = abs_sum < Fraction(2) ** 1023
            for name, g in ((("sum", got["sum"]), ("sum(permuted)", sh["sum"])) if sum_rules else ()):
                if isinstance(g, str) or not math.isfinite(g) or abs(Fraction(g) - s_exact) > tol:
                    bad("sum-beyond-rounding", "sum differs from the exact sum beyond double rounding", which=name, got=repr(g), exact=float(s_exact))
            # ---- avg = sum / count
            if sum_rules and math.isfinite(got["sum"]):
                a_exp = got["sum"] / n
                if got["avg"] != a_exp and abs(got["avg"] - a_exp) > abs(a_exp) * 2 ** -52:
                    bad("avg-not-sum-over-count", "avg is not sum divided by the count", avg=repr(got["avg"]), sum=repr(got["sum"]), n=n)
                if not isinstance(sh["avg"], str) and abs(Fraction(sh["avg"]) - s_exact / n) > tol / n + abs(s_exact / n) * EPS * 2:
                    bad("avg-not-permutation-invariant", "avg of a permutation differs beyond rounding", avg=repr(sh["avg"]))
            # ---- prod: relative n*eps when no overflow / underflow can occur
            logs = [math.log10(abs(x)) for x in xs if x != 0]
            if any(x == 0 for x in xs):
                # a zero factor makes a finite product zero, with the sign the factors' signs give (IEEE, any order)
                negs = sum(1 for x in xs if math.copysign(1.0, x) < 0)
                want_sign = -1.0 if negs % 2 else 1.0
                for name, g in (("prod", got["prod"]), ("prod(permuted)", sh["prod"])):
                    if isinstance(g, str) or g != 0:
                        bad("prod-with-zero", "product of a finite list containing 0 is not 0", which=name, prod=repr(g))
                    elif math.copysign(1.0, g) != want_sign:
                        bad("prod-zero-sign", "the zero product of a finite list does not carry the sign of its factors", which=name, prod=repr(g), negative_factors=negs)
            elif sum(abs(l) for l in logs) < 280:
                p_exact = Fraction(1)
                for e in ex:
                    p_exact *= e
                for name, g in (("prod", got["prod"]), ("prod(permuted)", sh["prod"])):
                    if isinstance(g, str) or not math.isfinite(g) or abs(Fraction(g) - p_exact) > abs(p_exact) * (n + 1) * EPS * 2:
                        bad("prod-beyond-rounding", "prod differs from the exact product beyond double rounding", which=name, got=repr(g), exact=float(p_exact))
            # ---- median: middle order statistic / mean of the two middle ones
            srt = sorted(xs)
            m_exp = srt[n // 2] if n % 2 == 1 else (srt[n // 2 - 1] + srt[n // 2]) / 2.0
            for name, g in (("median", got["median"]), ("median(permuted)", sh["median"])):
                if g != m_exp:
                    bad("median-definition", "median is not the middle order statistic (or the mean of the two middle ones)", which=name, got=repr(g), expected=repr(m_exp))
        else:
            # with infinities: IEEE results
            pos, neg = any(x == math.inf for x in xs), any(x == -math.inf for x in xs)
            s = got["sum"]
            if pos and neg:
                if not math.isnan(s):
                    bad("sum-with-infinities", "sum of +inf and -inf is not NaN", got=repr(s))
            elif pos and s != math.inf or neg and s != -math.inf:
                bad("sum-with-infinities", "sum with an infinity is not that infinity", got=repr(s))
            # prod with infinities (no NaN among the elements): infinity times zero is NaN whatever the order; without a
            # zero - and with finite factors that cannot underflow on the way - it is the infinity of the factors' sign
            if not any(math.isnan(x) for x in xs):
                fin = [x for x in xs if math.isfinite(x)]
                for name, g in (("prod", got["prod"]), ("prod(permuted)", sh["prod"])):
                    if isinstance(g, str):
                        continue
                    if any(x == 0 for x in xs):
                        if not math.isnan(g):
                            bad("prod-infinity-times-zero", "the product of a list holding an infinity and a zero is not NaN", which=name, prod=repr(g))
                    elif sum(abs(math.log10(abs(x))) for x in fin) < 280:
                        negs = sum(1 for x in xs if x < 0)
                        want = -math.inf if negs % 2 else math.inf
                        if g != want:
                            bad("prod-with-infinities", "the product of a list holding an infinity (and no zero) is not the infinity of the factors' sign", which=name, prod=repr(g), expected=repr(want))
        # permutation invariance (exact) for min / max
        for f in ("min", "max"):
            if sh[f] != got[f]:
                bad(f"{f}-not-permutation-invariant", f"{f} of a permutation differs", got=repr(got[f]), permuted=repr(sh[f]))
        # ---- percentile: element of l, non-decreasing in p, p=0 -> min, p=100 -> max, permutation invariant
        pts = []
        for p, h, hs in ev["percentiles"]:
            v, vs = val(h), val(hs)
            if isinstance(v, str):
                bad("percentile-failed", "percentile failed for p in [0, 100]", p=p)
                continue
            if not any(v == x for x in xs):
                bad("percentile-not-element", "percentile is not an element of the list", p=p, got=repr(v))
            if vs != v:
                bad("percentile-not-permutation-invariant", "percentile of a permutation differs", p=p, got=repr(v), permuted=repr(vs))
            pts.append((p, v))
        pts.sort()
        for (p1, v1), (p2, v2) in zip(pts, pts[1:]):
            if v2 < v1:
                bad("percentile-not-monotone", "percentile decreases as p grows", p1=p1, v1=repr(v1), p2=p2, v2=repr(v2))
        for p, v in pts:
            if p == 0 and v != got["min"]:
                bad("percentile-0-not-min", "percentile(l, 0) is not min", got=repr(v))
            if p == 100 and v != got["max"]:
                bad("percentile-100-not-max", "percentile(l, 100) is not max", got=repr(v))
    return {"viols": viols, "checked": checked, "extra": {"lists_checked_exactly": checked}}


def offline(ctx, res):
    results = U.run_parallel(worker, U.shard_files(ctx["rundir"]), ctx["ncpu"])
    checked, extra = U.merge(res, results, "C15")
    return {"coverage": {"offline_oracle": "python fractions.Fraction", **extra}}
