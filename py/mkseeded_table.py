#!/usr/bin/env python3
"""Regenerate DESIGN.md section 7b (seeded changes and which checks catch them) from /verif/seeded/*/meta.json."""
import glob, json, os
V = os.path.dirname(os.path.dirname(os.path.abspath(__file__)))
rows = []
for d in sorted(glob.glob(os.path.join(V, "seeded", "*"))):
    try:
        m = json.load(open(os.path.join(d, "meta.json")))
    except Exception:
        continue
    rows.append((os.path.basename(d), m.get("property", "?"), m.get("first_result", "?"), ", ".join(m.get("caught_by", [])), (m.get("note") or "").replace("|", "\\|")))
missed = sum(1 for r in rows if r[2] == "missed")
out = ["## 7b. Seeded changes and which checks catch them (generated from seeded/*/meta.json)\n",
       "Each change was written by a fresh sub-agent that saw only the text of one property and a scratch worktree, compiles, passes the 435 repository",
       "tests, and comes with a demonstration that fails with it and passes without it (all re-confirmed by me). `first` = outcome of the quick check as it was",
       f"when the change arrived; every miss led to a strengthening of the workload / oracle described in the note. {len(rows)} changes, {missed} missed at first, all caught now.\n",
       "| seeded change | property | first | caught by (quick) | what it is / what was strengthened |", "|---|---|---|---|---|"]
for r in rows:
    out.append("| `%s` | %s | %s | %s | %s |" % r)
block = "\n".join(out) + "\n\n"
p = os.path.join(V, "DESIGN.md"); s = open(p).read()
marker = "## 8. Log of false alarms corrected"
if "## 7b." in s:
    a = s.index("## 7b."); b = s.index(marker); s = s[:a] + block + s[b:]
else:
    s = s.replace(marker, block + marker)
open(p, "w").write(s)
print(len(rows), "seeded changes,", missed, "missed at first")
