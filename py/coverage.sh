#!/bin/bash
# Diagnostic (not a registered check): region coverage of /repo's crates under the quick-tier probe workloads.
# Builds the harness with -Cinstrument-coverage on the nightly toolchain (the only one with llvm-profdata / llvm-cov here) in a
# scratch directory, runs every probe-based check (all 16 shards, quick tier), and prints llvm-cov's per-file report.
# usage: py/coverage.sh [scratch-dir]     (default /tmp/cov; remove it afterwards)
set -u
S=${1:-/tmp/cov}
NB=$(dirname "$(rustup which --toolchain nightly rustc)")/../lib/rustlib/x86_64-unknown-linux-gnu/bin
mkdir -p "$S/raw" && rm -f "$S"/raw/*.profraw
( cd /verif/harness && LLVM_PROFILE_FILE="$S/raw/build-%p.profraw" RUSTFLAGS="-Cinstrument-coverage" CARGO_NET_OFFLINE=true cargo +nightly build --release --offline --target-dir "$S/target" 2>&1 | tail -1 )
P=$S/target/release/probe
for c in C01 C02 C03 C04 C05 C06 C07 C08 C09 C10 C11 C12 C13 C14 C15 C16 C17 C20; do
  for i in $(seq 0 15); do
    LLVM_PROFILE_FILE=$S/raw/$c-$i-%p.profraw timeout 900 "$P" $c --tier quick --shard $i/16 --cli /verif/.target/cli/release/blots > /dev/null 2>&1 &
  done
  wait
done
"$NB/llvm-profdata" merge -sparse "$S"/raw/*.profraw -o "$S/all.profdata"
"$NB/llvm-cov" report "$P" -instr-profile="$S/all.profdata" --ignore-filename-regex='(registry|rustc|/verif/)' 2>/dev/null | awk '{printf "%-40s regions=%s missed=%s cover=%s\n", $1, $2, $3, $4}'
