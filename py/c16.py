"""C16 offline oracle: (a) the text every path produced denotes exactly the double it came from (CPython float() is
correctly rounded and shares no code with the Rust side); (b) numeric literals: the exact value is computed from the
spelling alone by this module's own literal grammar and must round (ties to even) to the double the parser produced."""
import json
import re

import offline_util as U

DEC = re.compile(r"^([+-]?)(?:(\d+(?:_+\d+)*)(?:\.(\d+))?|\.(\d+))(?:[eE]([+-]?\d+))?$")
HEX = re.compile(r"^([+-]?)0x([0-9a-fA-F]+(?:_+[0-9a-fA-F]+)*)$")
BIN = re.compile(r"^([+-]?)0b([01]+(?:_+[01]+)*)$")


def literal_value(s):
    """-> (class, expected float) or None when the spelling is not in the documented grammar"""
    if s.startswith("+"):
        return None  # an explicit + sign is not part of the documented spellings: no claim
    m = HEX.match(s)
    if m:
        n = int(m.group(2).replace("_", ""), 16)
        cls = "hex" if n < 2 ** 63 else "radix>i64"
        try:
            v = float(n)
        except OverflowError:
            v = float("inf")
        return cls, (-v if m.group(1) == "-" else v)
    m = BIN.match(s)
    if m:
        n = int(m.group(2).replace("_", ""), 2)
        cls = "binary" if n < 2 ** 63 else "radix>i64"
        v = float(n)
        return cls, (-v if m.group(1) == "-" else v)
    m = DEC.match(s)
    if m:
        txt = s.replace("_", "")
        cls = "decimal"
        if m.group(5) is not None:
            cls = "scientific"
        if m.group(4) is not None:
            cls = "leading-dot"
        if "_" in s:
            cls += "+separators"
        return cls, float(txt)
    return None


def body_number(path, txt):
    if path in ("P1-to_string-to_number", "P2-json-out-in"):
        return txt
    if path == "P3-captured-emitted-reloaded":
        return txt.split("=>", 1)[1].strip() if "=>" in txt else None
    if path == "P4-literal-emitted-reloaded":
        try:
            src = json.loads(txt)["__blots_function"]
        except Exception:
            return None
        return src.split("=>", 1)[1].strip()
    if path == "P5-literal-formatted-parsed":
        return txt.split("=", 1)[1].strip() if "=" in txt else None
    return None


def worker(path):
    viols, checked, lits, classes = [], 0, 0, {}
    for ev in U.iter_recs(path, ("c16p", "c16l")):
        if ev["k"] == "c16p":
            checked += 1
            x = U.bits_to_float(ev["b"])
            body = body_number(ev["p"], ev["txt"])
            ok = False
            if body is not None:
                b = body.strip()
                if b.startswith("(") and b.endswith(")"):
                    b = b[1:-1]
                try:
                    y = float(b)
                    ok = U.float_to_bits(y) == ev["b"]
                except ValueError:
                    ok = False
            if not ok:
                viols.append({"sig": f"text-denotes-other-number path={ev['p']}", "what": "the text produced for a number does not denote that number",
                              "case": {"path": ev["p"], "bits": ev["b"], "value": repr(x), "text": ev["txt"][:200]}})
        else:
            lits += 1
            s = ev["s"]
            lv = literal_value(s)
            if lv is None:
                continue  # not a documented spelling: no claim
            cls, exp = lv
            classes[cls] = classes.get(cls, 0) + 1
            if ev["st"] != "ok":
                viols.append({"sig": f"literal-class={cls} rejected", "what": "a documented numeric literal is rejected", "case": {"literal": s, "status": ev["st"], "expected": repr(exp)}})
                continue
            if ev["b"] != U.float_to_bits(exp):
                viols.append({"sig": f"literal-class={cls} wrong-value", "what": "a numeric literal does not denote its value correctly rounded",
                              "case": {"literal": s, "got": repr(U.bits_to_float(ev["b"])), "expected": repr(exp)}})
    return {"viols": viols, "checked": checked + lits, "extra": {"path_texts_checked": checked, "literals_checked": lits, **{f"literal_class_{k}": v for k, v in classes.items()}}}


def cli_leg(ctx, res):
    """The JSON-output path as the real CLI runs it (output validation + serialisation + printing), and JSON input -> JSON
    output: boundary doubles and a seeded sample, as an input echoed back, as a literal, nested in a list and a record."""
    import json
    import random
    import struct

    import common
    r = random.Random(ctx["seed"] * 7919 + 16)
    xs = [0.0, -0.0, 5e-324, -5e-324, 2.225073858507201e-308, 2.2250738585072014e-308, 1.7976931348623157e308, -1.7976931348623157e308, 1.7976931348623155e308,
          9007199254740992.0, 9007199254740993.0, 0.1, 0.30000000000000004, 1e15, 1e21, 1e22, 1e23, 123456789012345680000.0, 1e-7, 1.5e-310, 4.9e-323, 1e300, 1 / 3.0]
    n = 60 if ctx["tier"] == "quick" else 1500
    while len(xs) < n:
        x = struct.unpack(">d", struct.pack(">Q", r.getrandbits(64)))[0]
        if x == x and x not in (float("inf"), float("-inf")):
            xs.append(x)

    def one(item):
        i, x = item
        text = repr(x)
        forms = [("input-echo", ["output v = inputs.x", "-i", json.dumps({"x": x})], lambda o: o.get("v")),
                 ("nested", ["output v = [inputs.x, {k: inputs.x}]", "-i", json.dumps({"x": x})], lambda o: (o.get("v") or [None])[0]),
                 ("literal", [f"output v = {text if x >= 0 and not text.startswith('-') else '(' + text + ')'}"], lambda o: o.get("v"))]
        out = []
        for name, args, pick in forms[i % 3:i % 3 + 2] if ctx["tier"] == "quick" else forms:
            rr = common.run_cli(args, timeout=20)
            if rr["timeout"]:
                continue
            desc = {"form": name, "value": text, "bits": U.float_to_bits(x), "args": args, "exit": rr["rc"], "stdout": rr["out"].decode("utf-8", "replace")[:200], "stderr": rr["err"].decode("utf-8", "replace")[-200:]}
            if rr["rc"] != 0:
                out.append({"sig": f"cli-json-output-refused form={name}", "what": "the CLI does not write a finite number as JSON output", "case": desc})
                continue
            try:
                got = pick(json.loads(rr["out"].decode("utf-8")))
            except Exception:
                got = None
            if not isinstance(got, (int, float)) or isinstance(got, bool) or U.float_to_bits(float(got)) != U.float_to_bits(x):
                out.append({"sig": f"cli-json-output-differs form={name}", "what": "a number written by the CLI as JSON output does not read back as the identical double", "case": dict(desc, read_back=repr(got))})
        return out

    runs = 0
    for vs in common.pmap(one, list(enumerate(xs))):
        runs += 1
        for v in vs:
            res.viols.append({"t": "viol", "prop": "C16", **v})
    return {"numbers_through_the_real_cli": runs}


def offline(ctx, res):
    results = U.run_parallel(worker, U.shard_files(ctx["rundir"]), ctx["ncpu"])
    checked, extra = U.merge(res, results, "C16")
    cli = cli_leg(ctx, res)
    return {"coverage": {"offline_oracle": "CPython float()/int() (correctly rounded), own literal grammar", "cli_leg": cli, **extra}}
