"""C16 offline oracle: (a) the text every path produced denotes exactly the double it came from (CPython float() is
correctly rounded and shares no code with the Rust side); (b) numeric literals: the exact value is computed from the
spelling alone by this module's own literal grammar and must round (ties to even) to the double the parser produced."""
import json
import re

import offline_util as U

DEC = re.compile(r"^([+-]?)(?:(\d+(?:_+\d+)*)(?:\.(\d+))?|\.(\d+))(?:[eE]([+-]?\d+))?$")
HEX = re.compile(r"^([+-]?)0x([0-9a-fA-F]+(?:_+[0-9a-fA-F]+)*)$")
BIN = re.compile(r"^([+-]?)0b([01]+(?:_+[01]+)*)$")


def literal_value(s):
    """-> (class, expected float) or None when the spelling is not in the documented grammar"""
    if s.startswith("+"):
        return None  # an explicit + sign is not part of the documented spellings: no claim
    m = HEX.match(s)
    if m:
        n = int(m.group(2).replace("_", ""), 16)
        cls = "hex" if n < 2 ** 63 else "radix>i64"
        try:
            v = float(n)
        except OverflowError:
            v = float("inf")
        return cls, (-v if m.group(1) == "-" else v)
    m = BIN.match(s)
    if m:
        n = int(m.group(2).replace("_", ""), 2)
        cls = "binary" if n < 2 ** 63 else "radix>i64"
        v = float(n)
        return cls, (-v if m.group(1) == "-" else v)
    m = DEC.match(s)
    if m:
        txt = s.replace("_", "")
        cls = "decimal"
        if m.group(5) is not None:
            cls = "scientific"
        if m.group(4) is not None:
            cls = "leading-dot"
        if "_" in s:
            cls += "+separators"
        return cls, float(txt)
    return None


def body_number(path, txt):
    if path in ("P1-to_string-to_number", "P2-json-out-in"):
        return txt
    if path == "P3-captured-emitted-reloaded":
        return txt.split("=>", 1)[1].strip() if "=>" in txt else None
    if path == "P4-literal-emitted-reloaded":
        try:
            src = json.loads(txt)["__blots_function"]
        except Exception:
            return None
        return src.split("=>", 1)[1].strip()
    if path == "P5-literal-formatted-parsed":
        return txt.split("=", 1)[1].strip() if "=" in txt else None
    return None


def worker(path):
    viols, checked, lits, classes = [], 0, 0, {}
    for ev in U.iter_recs(path, ("c16p", "c16l")):
        if ev["k"] == "c16p":
            checked += 1
            x = U.bits_to_float(ev["b"])
            body = body_number(ev["p"], ev["txt"])
            ok = False
            if body is not None:
                b = body.strip()
                if b.startswith("(") and b.endswith(")"):
                    b = b[1:-1]
                try:
                    y = float(b)
                    ok = U.float_to_bits(y) == ev["b"]
                except ValueError:
                    ok = False
            if not ok:
                viols.append({"sig": f"text-denotes-other-number path={ev['p']}", "what": "the text produced for a number does not denote that number",
                              "case": {"path": ev["p"], "bits": ev["b"], "value": repr(x), "text": ev["txt"][:200]}})
        else:
            lits += 1
            s = ev["s"]
            lv = literal_value(s)
            if lv is None:
                continue  # not a documented spelling: no claim
            cls, exp = lv
            classes[cls] = classes.get(cls, 0) + 1
            if ev["st"] != "ok":
                viols.append({"sig": f"literal-class={cls} rejected", "what": "a documented numeric literal is rejected", "case": {"literal": s, "status": ev["st"], "expected": repr(exp)}})
                continue
            if ev["b"] != U.float_to_bits(exp):
                viols.append({"sig": f"literal-class={cls} wrong-value", "what": "a numeric literal does not denote its value correctly rounded",
                              "case": {"literal": s, "got": repr(U.bits_to_float(ev["b"])), "expected": repr(exp)}})
    return {"viols": viols, "checked": checked + lits, "extra": {"path_texts_checked": checked, "literals_checked": lits, **{f"literal_class_{k}": v for k, v in classes.items()}}}


def offline(ctx, res):
    results = U.run_parallel(worker, U.shard_files(ctx["rundir"]), ctx["ncpu"])
    checked, extra = U.merge(res, results, "C16")
    return {"coverage": {"offline_oracle": "CPython float()/int() (correctly rounded), own literal grammar", **extra}}
