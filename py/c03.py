"""C03, process-level leg: sessions through the REAL interactive REPL of the CLI.

The in-process session monitor feeds statements into one shared heap + environment the way the REPL does, but it is
not the REPL. Failing statements followed by more statements exist only there (file / inline / -e modes stop at the
first failure), so a sample of the probe's sessions is replayed through `blots` running under a pseudo-terminal:
every statement is typed at the prompt, `output <name>` is typed for every name afterwards, and Ctrl-D makes the REPL
print the outputs object. Oracle: (1) each statement reports an error exactly when the in-process run did, (2) the
outputs object printed at the end holds, for every data-valued name the session bound, exactly the value the model
holds (numbers compared as doubles), and nothing for names that were never bound, (3) the REPL exits 0 and never dies.
"""
import json
import os
import pty
import re
import select
import subprocess
import time

import common
import offline_util as U
from c06 import tagged_equal

ANSI = re.compile(r"\x1b\[[0-9;?]*[A-Za-z]")
PROBE_NAMES = ["a", "b", "c", "d", "f", "g", "t", "x"]


class Repl:
    def __init__(self, binary, term="dumb"):
        self.m, s = pty.openpty()
        env = dict(common.ENV, TERM=term)
        self.p = subprocess.Popen([binary], stdin=s, stdout=s, stderr=s, close_fds=True, env=env, cwd="/")
        os.close(s)
        self.buf = b""

    def _read(self, until_prompt, t):
        end = time.time() + t
        while time.time() < end:
            r, _, _ = select.select([self.m], [], [], 0.05)
            if r:
                try:
                    d = os.read(self.m, 65536)
                except OSError:
                    return False
                if not d:
                    return False
                self.buf += d
                tail = ANSI.sub("", self.buf[-80:].decode("utf-8", "replace")).rstrip("\r")
                if until_prompt and (tail.endswith("> ") or tail.endswith("... ")):
                    # the prompt is the last thing the REPL writes before it waits
                    r2, _, _ = select.select([self.m], [], [], 0.01)
                    if not r2:
                        return True
            elif self.p.poll() is not None:
                return False
        return False

    def start(self):
        return self._read(True, 10)

    def line(self, text):
        self.buf = b""
        os.write(self.m, (text + "\n").encode())
        ok = self._read(True, 10)
        return ok, ANSI.sub("", self.buf.decode("utf-8", "replace"))

    def finish(self):
        self.buf = b""
        try:
            os.write(self.m, b"\x04")
        except OSError:
            pass
        self._read(False, 3)
        try:
            rc = self.p.wait(timeout=5)
        except subprocess.TimeoutExpired:
            self.p.kill()
            rc = "timeout"
        try:
            os.close(self.m)
        except OSError:
            pass
        return rc, ANSI.sub("", self.buf.decode("utf-8", "replace"))


def statement(repl, src):
    """type one (possibly multi-line) statement; returns (alive, text printed after the last line)"""
    text, alive = "", True
    for ln in src.split("\n"):
        alive, text = repl.line(ln)
        if not alive:
            break
    return alive, text


def replay(job):
    binary, ev = job
    stmts, status, bound = ev["stmts"], ev["status"], ev["bound"]
    viols = []
    desc = {"session": stmts, "in_process_status": status}
    repl = Repl(binary)
    if not repl.start():
        repl.finish()
        return [], "inconclusive: the REPL did not show a prompt", 0
    for k, src in enumerate(stmts):
        if not src.strip():
            continue
        alive, text = statement(repl, src)
        if not alive:
            rc, tail = repl.finish()
            viols.append(("repl-died", "the interactive REPL died or stopped answering during a session", dict(desc, at_statement=k, statement=src, exit=rc, tail=(text + tail)[-400:])))
            return viols, None, 1
        if text.rstrip().endswith("..."):
            # the REPL waits for more input (an unbalanced statement): close it with an empty line
            alive, text2 = repl.line("")
            text += text2
        is_err = "[evaluation error]" in text or "[parse error]" in text or "Error:" in text
        # "[output error]": the REPL refuses to *record* an output that is a function with unbound names (the statement
        # itself evaluated); the in-process session does not model that refusal, so no status is compared there
        if "[output error]" in text:
            continue
        if is_err != (status[k] == "err"):
            viols.append(("repl-status-differs", "a statement typed into the REPL fails / succeeds differently from the same statement in the in-process session", dict(desc, at_statement=k, statement=src, repl_printed=text[-400:])))
    data_names = [b["name"] for b in bound if b["data"]]
    never_bound = [n for n in PROBE_NAMES if n not in [b["name"] for b in bound]]
    for n in data_names + never_bound:
        alive, text = statement(repl, f"output {n}")
        if not alive:
            rc, tail = repl.finish()
            viols.append(("repl-died", "the interactive REPL died or stopped answering during a session", dict(desc, statement=f"output {n}", exit=rc, tail=(text + tail)[-400:])))
            return viols, None, 1
    rc, final = repl.finish()
    if rc != 0:
        viols.append(("repl-exit-status", "the REPL does not exit 0 at end of input", dict(desc, exit=rc, tail=final[-300:])))
        return viols, None, 1
    start = final.find("{")
    try:
        obj = json.loads(final[start:final.rfind("}") + 1]) if start >= 0 else None
    except Exception:
        obj = None
    if not isinstance(obj, dict):
        viols.append(("repl-no-outputs-object", "the REPL did not print an outputs object at end of input", dict(desc, printed=final[-300:])))
        return viols, None, 1
    for b in bound:
        if not b["data"]:
            continue
        n = b["name"]
        if n not in obj:
            viols.append(("repl-binding-lost", "a name the session bound is not bound (cannot be output) at the end of the REPL session", dict(desc, name=n, outputs=final[-300:])))
        elif not tagged_equal(b["value"], obj[n]):
            viols.append(("repl-binding-changed", "a name bound during the REPL session holds a different value at the end", dict(desc, name=n, expected=json.dumps(b["value"])[:300], got=json.dumps(obj[n])[:300])))
    for n in never_bound:
        if n in obj:
            viols.append(("repl-name-leaked", "a name the session never bound at top level is bound at the end of the REPL session", dict(desc, name=n, value=json.dumps(obj[n])[:200])))
    return viols, desc if len(stmts) >= 3 else None, 1


def offline(ctx, res):
    recs = [ev for ev in res.recs if ev.get("k") == "repl-session"]
    limit = 600 if ctx["tier"] == "quick" else 6000
    recs = recs[:limit]
    t0 = time.time()
    results = common.pmap(replay, [(ctx["cli"], ev) for ev in recs], workers=min(16, ctx["ncpu"]))
    # The evaluator is deterministic, reading a pseudo-terminal is not (what has arrived when the prompt is looked for
    # depends on scheduling): a session that reports something is typed in twice more, one session at a time, and only
    # what all three runs report is a violation; anything else is an inconclusive case.
    unstable = 0
    for i, ((viols, info, n), ev) in enumerate(zip(results, recs)):
        if not viols:
            continue
        key = lambda v: (v[0], v[2].get("at_statement"), v[2].get("name"), v[2].get("statement"))
        keep = {key(v) for v in viols}
        for _ in range(2):
            v2, _, _ = replay((ctx["cli"], ev))
            keep &= {key(v) for v in v2}
        confirmed = [v for v in viols if key(v) in keep]
        if len(confirmed) != len(viols):
            unstable += 1
            res.inconclusive_cases.append("REPL leg: a session answered differently when typed in again (pseudo-terminal timing); the report was not confirmed: " + viols[0][0])
        results[i] = (confirmed, info, n)
    sessions = statements = 0
    for (viols, info, n), ev in zip(results, recs):
        sessions += n
        statements += len(ev["stmts"]) if n else 0
        if isinstance(info, str):
            res.inconclusive_cases.append(info)
        elif info is not None and len(res.samples) < 40 and sessions % 50 == 1:
            res.samples.append({"part": "real REPL under a pty", **info})
        for sig, what, case in viols:
            res.viols.append({"t": "viol", "prop": "C03", "sig": sig, "what": what, "case": case})
    return {"evaluations": sessions, "nontrivial": sessions, "distinct_nontrivial": 0,
            "coverage": {"repl_leg": {"sessions_replayed_through_real_repl": sessions, "statements_typed": statements, "seconds": round(time.time() - t0, 1), "reports_not_confirmed_on_replay": unstable,
                                      "driver": "blots (release, hooks off) on a pseudo-terminal; outputs object read after Ctrl-D"}}}
