"""C06: (1) output direction - the JSON text the real code wrote is parsed by Python's json and compared with the
tagged tree the probe built (bits for numbers, code points for strings / keys, key order ignored);
(2) input direction - generated JSON documents are fed to the real hooks-off CLI through -i, several -i and stdin,
and `output x = inputs.x` must reproduce them up to JSON value equality with numbers compared as doubles;
(3) chain: blots a | blots b."""
import json
import math
import random

import common
import offline_util as U


# ---------------------------------------------------------------------------------------------
# (1) output direction

def tagged_equal(t, j):
    """t: tagged tree from the probe; j: python json value"""
    (k, v), = t.items()
    if k == "n":
        if isinstance(j, bool) or not isinstance(j, (int, float)):
            return False
        return U.float_to_bits(float(j)) == v
    if k == "s":
        return isinstance(j, str) and j == v
    if k == "b":
        return isinstance(j, bool) and j == v
    if k == "z":
        return j is None
    if k == "l":
        return isinstance(j, list) and len(j) == len(v) and all(tagged_equal(a, b) for a, b in zip(v, j))
    if k == "r":
        if not isinstance(j, dict) or len(j) != len(v):
            return False
        return all(key in j and tagged_equal(val, j[key]) for key, val in v)
    return False


def worker(path):
    viols, checked = [], 0
    for ev in U.iter_recs(path, ("c06o",)):
        checked += 1
        try:
            j = json.loads(ev["json"])
        except Exception as e:
            viols.append({"sig": "output-json-invalid", "what": "the output JSON text is not valid JSON", "case": {"json": ev["json"][:300], "error": str(e)}})
            continue
        if not tagged_equal(ev["expected"], j):
            viols.append({"sig": "output-json-differs", "what": "the output JSON text does not denote the value that was written", "case": {"json": ev["json"][:400], "expected": json.dumps(ev["expected"])[:400]}})
    return {"viols": viols, "checked": checked, "extra": {"output_texts_checked_by_python_json": checked}}


# ---------------------------------------------------------------------------------------------
# (2) input direction

def rand_number_text(r):
    k = r.randrange(10)
    if k == 0:
        return str(r.randrange(-1000, 1000))
    if k == 1:
        return repr(r.uniform(-1e6, 1e6))
    if k == 2:
        import struct
        while True:
            x = struct.unpack(">d", struct.pack(">Q", r.getrandbits(64)))[0]
            if math.isfinite(x):
                return repr(x)
    if k == 3:
        return str(r.choice([2 ** 53, 2 ** 53 + 1, 2 ** 63, 2 ** 64, 2 ** 64 + 1, 10 ** 19, 10 ** 25, -(2 ** 63) - 1, 18446744073709551615, 12345678901234567890123]))
    if k == 4:
        return r.choice(["0", "-0", "0.0", "-0.0", "1e5", "1E5", "1e+5", "1E-5", "1.5e300", "5e-324", "2.2250738585072014e-308", "1.7976931348623157e308", "0.1", "0.30000000000000004", "7.038531e-26", "1e23", "8.41e21", "9007199254740993"])
    if k == 5:
        return f"{r.randrange(1, 10 ** 17)}e{r.randrange(-300, 290)}"
    if k == 6:
        return f"{r.randrange(0, 10 ** 6)}.{r.randrange(0, 10 ** 15):015d}"
    if k == 7:
        return f"{r.uniform(1, 10):.17g}e{r.randrange(-40, 40)}"
    return repr(r.random() * 10 ** r.randrange(-30, 30))


def rand_string(r):
    k = r.randrange(8)
    if k == 0:
        return ""
    if k == 1:
        return "".join(r.choice("abcXYZ 09_-") for _ in range(r.randrange(1, 12)))
    if k == 2:
        return "".join(chr(r.randrange(0, 0x20)) for _ in range(r.randrange(1, 4)))
    if k == 3:
        return r.choice(['"', "\\", "\\\\", '\\"', "/", "\b\f\n\r\t", "  ", "\u007f", "é", "日本語", "😀", "á", "﻿", "\U0010ffff", "퟿", "__blots_function", "null", "true", "1e5", "{}", "[]"])
    out = []
    for _ in range(r.randrange(1, 8)):
        while True:
            c = r.randrange(0, 0x110000)
            if not (0xD800 <= c <= 0xDFFF):
                out.append(chr(c))
                break
    return "".join(out)


def rand_key(r):
    k = r.randrange(6)
    if k == 0 and r.randrange(8) == 0:
        return "__blots_function"
    if k == 0:
        return r.choice(["", "0", "1", "-1", "1e5", "a", "a", "b", "key", "with space", "é", "é", "é", "if", "inputs", "x"])
    return rand_string(r)


class NoEscape(random.Random):
    """an emit() randomiser that always writes characters raw (UTF-8), never as \\uXXXX escapes"""

    def randrange(self, *a, **k):
        return 1 if a == (2,) else super().randrange(*a, **k)


class Raw(str):
    """number spelled exactly as given"""


def rand_value(r, depth):
    k = r.randrange(7 if depth > 0 else 4)
    if k == 0:
        return Raw(rand_number_text(r))
    if k == 1:
        return rand_string(r)
    if k == 2:
        return r.choice([True, False])
    if k == 3:
        return None
    if k in (4, 5):
        if r.randrange(12) == 0:
            # neighbours that are == but not the same double (zeros of opposite sign), bare and nested
            zs = [Raw(r.choice(["0", "-0", "0.0", "-0.0", "0e0", "-0e0"])) for _ in range(r.randrange(2, 6))]
            form = r.randrange(3)
            return [z if form == 0 else ([z] if form == 1 else [Raw("1"), ("obj", [("a", [z])])]) for z in zs]
        return [rand_value(r, depth - 1) for _ in range(r.randrange(0, 6))]
    pairs = []
    for _ in range(r.randrange(0, 6)):
        key = rand_key(r)
        if key == "__blots_function":
            # the key marks a function object only when its value is function source (or a built-in's name); with any other
            # value the object is ordinary data and must come back whole
            pairs.append((key, r.choice(["", "not a function", "hello world", "1 +", "=> x", Raw("5"), None, True, [Raw("1")]])))
            continue
        pairs.append((key, rand_value(r, depth - 1)))
    if pairs and r.randrange(4) == 0:
        # duplicate key: last one wins in both implementations
        pairs.append((pairs[0][0], rand_value(r, depth - 1)))
    return ("obj", pairs)


def emit(v, r):
    if isinstance(v, Raw):
        return str(v)
    if isinstance(v, str):
        # randomly use \uXXXX escapes (incl. surrogate pairs) instead of raw characters
        return json.dumps(v, ensure_ascii=(r.randrange(2) == 0))
    if v is True:
        return "true"
    if v is False:
        return "false"
    if v is None:
        return "null"
    if isinstance(v, list):
        return "[" + ",".join(emit(x, r) for x in v) + "]"
    _, pairs = v
    ws = r.choice(["", " ", "\n  "])
    return "{" + ",".join(ws + json.dumps(k, ensure_ascii=(r.randrange(2) == 0)) + ":" + ws + emit(x, r) for k, x in pairs) + "}"


def json_equal(a, b):
    """JSON value equality with numbers compared as doubles"""
    if isinstance(a, bool) or isinstance(b, bool):
        return isinstance(a, bool) and isinstance(b, bool) and a == b
    if isinstance(a, (int, float)) and isinstance(b, (int, float)):
        return U.float_to_bits(float(a)) == U.float_to_bits(float(b)) or (float(a) == float(b) == 0.0)
    if type(a) is not type(b):
        return False
    if isinstance(a, list):
        return len(a) == len(b) and all(json_equal(x, y) for x, y in zip(a, b))
    if isinstance(a, dict):
        return a.keys() == b.keys() and all(json_equal(a[k], b[k]) for k in a)
    return a == b


def first_difference(a, b, path="x"):
    if isinstance(a, list) and isinstance(b, list) and len(a) == len(b):
        for i, (x, y) in enumerate(zip(a, b)):
            if not json_equal(x, y):
                return first_difference(x, y, f"{path}[{i}]")
    if isinstance(a, dict) and isinstance(b, dict) and a.keys() == b.keys():
        for k in a:
            if not json_equal(a[k], b[k]):
                return first_difference(a[k], b[k], f"{path}[{k!r}]")
    return path, a, b


def classify(a, b):
    if isinstance(a, (int, float)) and isinstance(b, (int, float)) and not isinstance(a, bool) and not isinstance(b, bool):
        return "number"
    if isinstance(a, str) and isinstance(b, str):
        return "string"
    if isinstance(a, dict) and isinstance(b, dict):
        return "object-keys"
    return "type-or-shape"


def input_direction(ctx, res):
    r = random.Random(ctx["seed"] * 7919 + 13)
    ndocs = 1200 if ctx["tier"] == "quick" else 20000
    docs = []
    for i in range(ndocs):
        v = rand_value(r, r.randrange(1, 6))
        if r.randrange(3) == 0:
            v = [rand_value(r, 2) for _ in range(40)]
        docs.append((i, v, random.Random(r.getrandbits(32))))

    # large documents (past the sizes at which readers switch to chunked reads: 4 KiB, 8 KiB, 64 KiB), full of multi-byte
    # characters, at every alignment of those characters against the chunk boundaries; mostly on stdin
    big = [("stdin", 5000), ("stdin", 8192), ("stdin", 16384), ("stdin", 24000), ("stdin", 65536), ("stdin", 70000), ("-i", 9000), ("-i", 70000), ("two -i", 20000)]
    if ctx["tier"] != "quick":
        big += [("stdin", n) for n in (4096, 12000, 32768, 131072, 300000, 1000000)] + [("-i", 100000), ("two -i", 100000)]
    base_i = 3 * (ndocs // 3 + 1)
    k = 0
    for mode_name, size in big:
        for shift in range(5):
            unit = r.choice(["é", "日本語", "😀", "é日😀", "\u00a0ß→𝄞"])
            body = unit * (size // len(unit.encode("utf-8")) + 1)
            keyed = r.randrange(2) == 0
            v = ["p" * shift, body, ("obj", [(unit * 3, body[: 50 + shift])])] if keyed else ["p" * shift, body]
            docs.append((base_i + 3 * k + ["-i", "stdin", "two -i"].index(mode_name), v, NoEscape(r.getrandbits(32))))
            k += 1

    # wide containers (element / key counts round the usual powers of two and beyond) and combinations of width and depth
    for width in ([126, 127, 128, 129, 200, 255, 256, 257, 1000] + ([4096, 65536] if ctx["tier"] != "quick" else [])):
        for shape in range(4):
            if shape == 0:
                v = [Raw(str(j)) for j in range(width)]
            elif shape == 1:
                v = ("obj", [(f"k{j}", Raw(str(j))) for j in range(width)])
            elif shape == 2:
                v = [[Raw(str(j))] for j in range(width)]
            else:
                v = ("obj", [("a", [("obj", [("b", [Raw(str(j)) for j in range(width)])])])])
            docs.append((base_i + 3 * k + (k % 3), v, NoEscape(r.getrandbits(32))))
            k += 1

    def one(item):
        i, v, rr = item
        text_v = emit(v, rr)
        out = []
        try:
            expected = json.loads(text_v)
        except Exception:
            return out, 0, 0
        mode = i % 3
        if mode != 1 and len(text_v.encode("utf-8", "surrogatepass")) > 100_000:
            mode = 1   # a single argument is limited to 128 KiB by the kernel: large documents go through stdin
        if mode == 0:
            rr_ = common.run_cli(["output x = inputs.x", "-i", '{"x":' + text_v + "}"])
        elif mode == 1:
            rr_ = common.run_cli(["output x = inputs.x"], stdin_data=('{"x": ' + text_v + "}").encode("utf-8", "surrogatepass"))
        else:
            rr_ = common.run_cli(["output x = inputs.x", "-i", '{"y": 1}', "-i", '{"x":' + text_v + ', "y": 2}'])
        nleaves = text_v.count(",") + 1
        if rr_["timeout"]:
            return out, 1, nleaves
        case = {"mode": ["-i", "stdin", "two -i"][mode], "document": text_v[:600], "document_bytes": len(text_v.encode("utf-8", "surrogatepass"))}
        if rr_["rc"] != 0:
            out.append({"sig": "input-rejected", "what": "a valid JSON document is rejected as input", "case": dict(case, stderr=rr_["err"].decode("utf-8", "replace")[-300:])})
            return out, 1, nleaves
        try:
            got = json.loads(rr_["out"].decode("utf-8"))
        except Exception as e:
            out.append({"sig": "output-not-json", "what": "the CLI's stdout is not one JSON document", "case": dict(case, stdout=rr_["out"][:300].decode("utf-8", "replace"), error=str(e))})
            return out, 1, nleaves
        if not isinstance(got, dict) or "x" not in got or not json_equal(expected, got["x"]):
            gx = got.get("x") if isinstance(got, dict) else got
            path, a, b = first_difference(expected, gx)
            out.append({"sig": f"input-not-reproduced {classify(a, b)}", "what": "`output x = inputs.x` does not reproduce the input document",
                        "case": dict(case, at=path, input_value=repr(a)[:200], output_value=repr(b)[:200])})
        return out, 1, nleaves

    runs, leaves = 0, 0
    for vs, n, nl in common.pmap(one, docs):
        runs += n
        leaves += nl
        for v in vs:
            k = v["sig"]
            res.viol_by_sig[k] = res.viol_by_sig.get(k, 0) + 1
            if res.viol_by_sig[k] <= 3:
                res.viols.append({"t": "viol", "prop": "C06", **v})
    # (3) chain: blots a | blots b
    chain = 0
    for i, v, rr in docs[: (150 if ctx["tier"] == "quick" else 2500)]:
        text_v = emit(v, rr)
        try:
            json.loads(text_v)
        except Exception:
            continue
        a = common.run_cli(["output v = inputs.v", "-i", '{"v":' + text_v + "}"])
        if a["rc"] != 0 or a["timeout"]:
            continue
        b = common.run_cli(["output same = inputs.v .== inputs.w", "-i", '{"w":' + text_v + "}"], stdin_data=a["out"])
        chain += 1
        ok = False
        try:
            ok = b["rc"] == 0 and json.loads(b["out"].decode("utf-8")).get("same") is True
        except Exception:
            ok = False
        if not ok:
            res.viols.append({"t": "viol", "prop": "C06", "sig": "chain-not-equal", "what": "a value piped from one program into another is not .== to the original",
                              "case": {"document": text_v[:500], "second_stdout": b["out"][:200].decode("utf-8", "replace"), "second_stderr": b["err"][-200:].decode("utf-8", "replace")}})
    return runs, leaves, chain


def offline(ctx, res):
    results = U.run_parallel(worker, U.shard_files(ctx["rundir"]), ctx["ncpu"])
    checked, extra = U.merge(res, results, "C06")
    runs, leaves, chain = input_direction(ctx, res)
    extra.update({"cli_input_documents": runs, "cli_input_leaves_approx": leaves, "cli_chains": chain})
    return {"evaluations": runs + chain, "nontrivial": runs, "distinct_nontrivial": runs,
            "coverage": {"offline_oracle": "python json (independent, correctly rounded)", **extra}}
