"""C19 - CLI contract: exit status, outputs object, input merging, #name.  A Python model predicts, for scripts built
by construction, whether the run succeeds and exactly which JSON object is emitted; the real hooks-off release CLI is
run in every invocation mode and compared."""
import json
import os
import random
import tempfile

import common

FAIL_KINDS = ["unknown-name", "type-error", "rebinding", "forbidden-target", "failing-call", "parse-error", "not-callable", "field-of-number"]


def lit(v):
    """Blots source for a JSON-like python value (ints, simple strings, bools, None, lists, dicts)"""
    if v is None:
        return "null"
    if v is True:
        return "true"
    if v is False:
        return "false"
    if isinstance(v, (int, float)):
        return repr(v) if v >= 0 else f"(-{repr(-v)})"
    if isinstance(v, str):
        return '"' + v + '"'
    if isinstance(v, list):
        return "[" + ", ".join(lit(x) for x in v) + "]"
    return "{" + ", ".join(f'"{k}": {lit(x)}' for k, x in v.items()) + "}"


def rand_json(r, depth=2):
    k = r.randrange(7 if depth > 0 else 5)
    if k == 0:
        return r.randrange(-50, 1000)
    if k == 1:
        return r.choice(["", "a", "hello", "x y", "é", "k1"])
    if k == 2:
        return r.choice([True, False])
    if k == 3:
        return None
    if k == 4:
        # (the last few are whole numbers past 2^53 / 2^63 / 2^64: an outputs object holds the value, whatever its size)
        return r.choice([0.5, 2.25, 1e3, 12.125, 0.5, 2.25, 1e16, 1e19, 18446744073709551616.0, -1e19, 1e300, 9007199254740992.0, 123456789012345680000.0, -9223372036854775808.0])
    if k == 5:
        return [rand_json(r, depth - 1) for _ in range(r.randrange(0, 4))]
    return {r.choice(["a", "b", "c", "k", "n"]): rand_json(r, depth - 1) for _ in range(r.randrange(0, 3))}


def merge_inputs(stdin_doc, flag_docs):
    """model of input merging: stdin first, then -i flags left to right; non-objects become value_N in order of appearance"""
    merged = {}
    counter = 0
    for doc in ([stdin_doc] if stdin_doc is not None else []) + list(flag_docs):
        if isinstance(doc, dict):
            for k, v in doc.items():
                merged[k] = v
        else:
            counter += 1
            merged[f"value_{counter}"] = doc
    return merged


def build_case(r, idx):
    # ---- inputs
    n_flags = r.randrange(0, 5)
    use_stdin = r.randrange(3) == 0
    keys = ["a", "b", "c", "n", "k", "_k", "__n", "k_1", "_1", "Key", "value_9"]

    def rand_doc():
        k = r.randrange(5)
        if k <= 2:
            d = {r.choice(keys): rand_json(r) for _ in range(r.randrange(0, 4))}
            if r.randrange(6) == 0:
                # an input OBJECT is a set of named inputs whatever its keys are called - also when one of them is the key
                # that marks a function object one level further down
                items = list(d.items())
                items.insert(r.randrange(len(items) + 1), ("__blots_function", r.choice(["max", "(x) => x + 1", "not source", 5])))
                d = dict(items)
            return d
        if k == 3:
            return [rand_json(r, 1) for _ in range(r.randrange(0, 3))]
        return r.choice([5, "s", True, None, 2.5])

    flag_docs = [rand_doc() for _ in range(n_flags)]
    if n_flags >= 1 and r.randrange(5) == 0:
        # the same document once more, after the others (A B A: the last one wins again / counts as one more value_N)
        flag_docs.append(json.loads(json.dumps(flag_docs[0])))
        n_flags += 1
    stdin_doc = rand_doc() if use_stdin else None
    invalid_json = r.randrange(25) == 0 and (n_flags > 0 or use_stdin)
    inputs = merge_inputs(stdin_doc, flag_docs)
    # ---- script
    stmts = []          # source lines
    expected = {}       # name -> value, declaration order
    bound = {}          # name -> value
    n_out = r.randrange(0, 7)
    fresh = iter(f"v{i}" for i in range(100))
    # declaration order is not alphabetical order (and not length order): a sorted map on the way out would show
    name_pool = ["total", "n", "mean", "Big", "_z", "alpha", "o1", "o10", "o2", "Zeta", "b", "a"]
    r.shuffle(name_pool)
    out_names = name_pool[:n_out]

    def value_expr():
        """(source, value) with a value known by construction"""
        k = r.randrange(9)
        if k == 0:
            a, b = r.randrange(0, 100), r.randrange(0, 100)
            return f"{a} + {b} * 2", a + b * 2
        if k == 1:
            v = rand_json(r)
            return lit(v), v
        if k == 2 and inputs:
            key = r.choice(list(inputs.keys()))
            if key.isidentifier():
                return f"inputs.{key}", inputs[key]
            return f'inputs["{key}"]', inputs[key]
        if k == 3:
            key = r.choice(keys + ["absent_key", "value_1", "value_2", "value_3"])
            return f"#{key}", inputs.get(key)
        if k == 4:
            key = r.choice(keys + ["absent_key", "value_1"])
            return f"[#{key}, inputs.{key}]", [inputs.get(key), inputs.get(key)]
        if k == 5 and bound:
            nme = r.choice(list(bound.keys()))
            return nme, bound[nme]
        if k == 6:
            a = r.randrange(1, 20)
            return f"[{a}, {a} - 1, {a} * {a}]", [a, a - 1, a * a]
        if k == 7:
            key = r.choice(keys + ["absent_key"])
            v = inputs.get(key)
            if isinstance(v, list):
                # ?? broadcasts over a list on the left (C11): element by element, not recursively
                return f"#{key} ?? \"dflt\"", ["dflt" if e is None else e for e in v]
            return f"#{key} ?? \"dflt\"", v if v is not None else "dflt"
        a = r.randrange(0, 50)
        return f"{{total: {a} + 1, tag: \"t\"}}", {"total": a + 1, "tag": "t"}

    for nme in out_names:
        form = r.randrange(4)
        src, val = value_expr()
        if form == 0:
            stmts.append(f"output {nme} = {src}")
            bound[nme] = val
            expected[nme] = val
        elif form == 1:
            stmts.append(f"{nme} = {src}")
            bound[nme] = val
            # other statements in between
            if r.randrange(2):
                f2 = next(fresh)
                s2, v2 = value_expr()
                stmts.append(f"{f2} = {s2}")
                bound[f2] = v2
            stmts.append(f"output {nme}")
            expected[nme] = val
        elif form == 2:
            stmts.append(f"output {nme} = {src}")
            bound[nme] = val
            expected[nme] = val
            stmts.append(f"output {nme}")   # re-declaration: same key, same value, position kept
        else:
            # a plain binding that is never declared must not appear
            f2 = next(fresh)
            stmts.append(f"{f2} = {src}")
            bound[f2] = val
            s3, v3 = value_expr()
            stmts.append(f"output {nme} = {s3}")
            bound[nme] = v3
            expected[nme] = v3
        if r.randrange(4) == 0:
            stmts.append("// a comment line")
        if r.randrange(5) == 0:
            stmts.append("")
    # ---- optional failing statement at a chosen position
    fail_kind = None
    fail_pos = None
    if r.randrange(2) == 0:
        fail_kind = FAIL_KINDS[idx % len(FAIL_KINDS)]
        fail_pos = r.randrange(0, len(stmts) + 1)
        if fail_kind == "rebinding" and not bound:
            fail_kind = "unknown-name"
        bad_expr = {
            "unknown-name": "nope_undefined_name + 1",
            "type-error": "1 + \"a\"",
            "failing-call": "abs(\"a\")",
            "not-callable": "5(1)",
            "field-of-number": "(5).k",
        }
        if fail_kind in bad_expr:
            # the failing expression in every statement form: plain binding, bare expression, output
            # declaration with a value, and (for an unbound name) the bare `output <name>` form
            e = bad_expr[fail_kind]
            forms = [f"zz_q = {e}", e, f"output zz_q = {e}", f"zz_q = [1, {e}]", f"output zz_q = {{k: {e}}}"]
            if fail_kind == "unknown-name":
                forms += ["output nope_undefined_name", "output zz_later\nzz_later = 1", "nope_undefined_name",
                          "output zz_f = x => x + nope_undefined_name"]
            bad = forms[(idx // len(FAIL_KINDS)) % len(forms)]
        else:
            bad = {
                "rebinding": None,
                "forbidden-target": r.choice(["inputs = 1", "true = 1", "sum = 2", "constants = 3", "output inputs = 1", "output sum = 2"]),
                "parse-error": r.choice(["zz_q = = 1", "zz_q = (1 + ", "output", "zz_q = [1, 2", "zz_q = 1 +* 2", "zz_q = )", "output zz_q = ", "output 5", "output = 3"]),
            }[fail_kind]
        if fail_kind == "rebinding":
            # rebinding must come after the binding it repeats
            target_line = r.randrange(0, len(stmts))
            cands = [(i, s) for i, s in enumerate(stmts) if " = " in s and not s.startswith("//")]
            if not cands:
                fail_kind, bad, fail_pos = "unknown-name", "output nope_undefined_name", fail_pos
            else:
                i, s = r.choice(cands)
                name = s.replace("output ", "").split(" = ")[0].strip()
                bad = r.choice([f"{name} = 12345", f"output {name} = 12345"])
                fail_pos = r.randrange(i + 1, len(stmts) + 1)
        stmts.insert(fail_pos, bad)
    return {"stmts": stmts, "expected": expected, "fail_kind": fail_kind, "fail_pos": fail_pos, "flag_docs": flag_docs, "stdin_doc": stdin_doc,
            "invalid_json": invalid_json, "inputs": inputs}


def json_same(a, b):
    if isinstance(a, bool) or isinstance(b, bool):
        return isinstance(a, bool) and isinstance(b, bool) and a == b
    if isinstance(a, (int, float)) and isinstance(b, (int, float)):
        return float(a) == float(b)
    if type(a) is not type(b):
        return False
    if isinstance(a, list):
        return len(a) == len(b) and all(json_same(x, y) for x, y in zip(a, b))
    if isinstance(a, dict):
        return a.keys() == b.keys() and all(json_same(a[k], b[k]) for k in a)
    return a == b


def find_json_objects(text):
    objs = []
    for line in text.splitlines():
        line = line.strip()
        if line.startswith("{"):
            try:
                v = json.loads(line)
                if isinstance(v, dict):
                    objs.append(v)
            except Exception:
                pass
    return objs


def offline(ctx, res):
    seed, tier = ctx["seed"], ctx["tier"]
    n = 3000 if tier == "quick" else 40000
    tmpdir = tempfile.mkdtemp(prefix="c19", dir=ctx["rundir"])
    modes = ["file", "inline", "evaluate-stdin", "output-file", "unwritable-output"]
    samples = []

    def one(idx):
        r = random.Random(seed * 1000003 + idx)
        case = build_case(r, idx)
        mode = modes[idx % len(modes)] if idx % 11 else "file"
        src = "\n".join(case["stmts"])
        viols = []
        expect_ok = case["fail_kind"] is None and not case["invalid_json"]
        args, stdin_data = [], None
        flag_docs = list(case["flag_docs"])
        stdin_doc = case["stdin_doc"]
        if mode == "evaluate-stdin":
            # source on stdin: inputs only via -i
            if stdin_doc is not None:
                return [], None, 0
            stdin_data = src.encode()
            args = ["-e"]
        elif mode == "inline":
            if not src.strip() or src.startswith("-") or len(src) > 3000 or os.path.exists(src):
                return [], None, 0
            args = [src]
        else:
            path = os.path.join(tmpdir, f"s{idx}.blots")
            with open(path, "w") as f:
                f.write(src)
            args = [path]
        # every JSON layout of the same document is the same input: compact, spaced, pretty-printed over several lines
        # (with \n or \r\n), with blank lines / leading whitespace / a trailing newline
        seen_layouts = {}

        def layout(d):
            # a document that occurs again among the inputs is half of the time written with exactly the same text
            # (the same flag given twice is two inputs), otherwise with an independent layout
            key = json.dumps(d, sort_keys=False)
            if key in seen_layouts and r.randrange(2) == 0:
                return seen_layouts[key]
            text = layout_once(d)
            seen_layouts.setdefault(key, text)
            return text

        def layout_once(d):
            k = r.randrange(7)
            if k == 0:
                return json.dumps(d)
            if k == 1:
                return json.dumps(d, separators=(",", ":"))
            if k == 2:
                return json.dumps(d, indent=2)
            if k == 3:
                return json.dumps(d, indent=2).replace("\n", "\r\n")
            if k == 4:
                return "\n\n  " + json.dumps(d, indent=1) + "\n\n"
            if k == 5:
                return json.dumps(d, indent="\t") + "\n"
            return json.dumps(d) + "\n"
        texts = [layout(d) for d in flag_docs]
        stdin_text = layout(stdin_doc) if stdin_doc is not None else None
        if case["invalid_json"]:
            if texts and (stdin_text is None or idx % 2):
                k = r.randrange(len(texts))
                texts[k] = r.choice(["{not json", "{\"a\": }", "[1, 2", "nul", "{'a': 1}", ""]) or "{"
            elif stdin_text is not None and mode != "evaluate-stdin":
                stdin_text = "{\"a\": oops}"
            else:
                expect_ok = case["fail_kind"] is None
        for t in texts:
            args += ["-i", t]
        if stdin_text is not None and mode != "evaluate-stdin":
            stdin_data = stdin_text.encode()
        out_path = None
        stale = None
        if mode == "output-file":
            out_path = os.path.join(tmpdir, f"o{idx}.json")
            args += ["-o", out_path]
            if r.randrange(2):
                # the --output path already holds an (older, longer) outputs object
                stale = json.dumps({"stale_key": list(range(60)), "older": {"text": "x" * r.randrange(0, 300)}}) + "\n"
                with open(out_path, "w") as f:
                    f.write(stale)
        elif mode == "unwritable-output":
            out_path = os.path.join(tmpdir, "no_such_dir", f"o{idx}.json")
            args += ["-o", out_path]
        rr = common.run_cli(args, stdin_data=stdin_data, timeout=20)
        if rr["timeout"]:
            return [], None, 0
        stdout = rr["out"].decode("utf-8", "replace")
        stderr = rr["err"].decode("utf-8", "replace")
        desc = {"mode": mode, "script": src, "args": args[:1] + [a for a in args[1:]], "stdin": (stdin_data or b"").decode("utf-8", "replace")[:300] if mode != "evaluate-stdin" else "<script>",
                "exit": rr["rc"], "stdout": stdout[:400], "stderr": stderr[-300:], "fail_kind": case["fail_kind"], "fail_pos": case["fail_pos"]}
        nontrivial = 1 if (case["expected"] and (flag_docs or stdin_doc is not None)) else 0
        objs = find_json_objects(stdout)
        file_obj = None
        file_text = None
        if out_path and os.path.exists(out_path):
            try:
                with open(out_path) as f:
                    file_text = f.read()
                file_obj = json.loads(file_text)
            except Exception:
                file_obj = "unparsable"
        desc["output_file_preexisting"] = stale is not None
        if mode == "unwritable-output":
            # the outputs object cannot be written: must not exit 0 silently... (statement: emits iff success) -
            # only the failing direction is claimed: a failing script must still fail
            if not expect_ok and rr["rc"] == 0:
                viols.append(("exit-0-on-failing-script mode=unwritable-output", "a failing script exits 0", desc))
            if expect_ok and rr["rc"] == 0:
                viols.append(("exit-0-without-emitting mode=unwritable-output", "exit status 0 although the outputs object could not be written", desc))
            return viols, desc, nontrivial
        if expect_ok:
            if rr["rc"] != 0:
                viols.append((f"nonzero-exit-on-success mode={mode}", "a script whose statements all succeed does not exit 0", desc))
                return viols, desc, nontrivial
            if mode == "output-file":
                if objs:
                    viols.append(("object-on-stdout-with-output-file", "stdout carries an outputs object although --output was given", desc))
                got = file_obj
            else:
                if len(objs) != 1:
                    viols.append((f"not-exactly-one-object mode={mode}", "stdout does not carry exactly one JSON object", desc))
                    return viols, desc, nontrivial
                got = objs[0]
            exp = case["expected"]
            if got == "unparsable":
                viols.append(("output-file-not-one-object", "the --output file does not hold exactly one JSON object", dict(desc, file_content=(file_text or "")[:300])))
            elif not isinstance(got, dict):
                viols.append((f"outputs-missing mode={mode}", "no outputs object was emitted", desc))
            elif list(got.keys()) != list(exp.keys()):
                viols.append(("outputs-key-sequence", "keys of the outputs object are not the declared names in declaration order", dict(desc, expected_keys=list(exp.keys()), got_keys=list(got.keys()))))
            elif not json_same(got, exp):
                bad_keys = [k for k in exp if not json_same(exp[k], got[k])]
                viols.append(("outputs-values", "an output does not hold the value the name had at its declaration (input merging / #name / arithmetic)", dict(desc, differing=bad_keys, expected={k: exp[k] for k in bad_keys}, got={k: got[k] for k in bad_keys}, merged_inputs_model=case["inputs"])))
        else:
            if rr["rc"] == 0:
                kind = case["fail_kind"] or "invalid-json-input"
                viols.append((f"exit-0-on-failure kind={kind}", "exit status 0 although a statement failed / an input was invalid", desc))
            if objs:
                viols.append(("outputs-object-on-failure", "an outputs object is emitted although the run failed", desc))
            if stale is not None:
                if file_text != stale:
                    viols.append(("outputs-file-changed-on-failure", "the existing --output file was modified although the run failed", dict(desc, file_content=(file_text or "")[:300])))
            elif file_obj is not None:
                viols.append(("outputs-file-on-failure", "the --output file was written although the run failed", desc))
            if rr["rc"] != 0 and not (stdout.strip() or stderr.strip()):
                viols.append(("no-error-report", "the run failed without reporting an error", desc))
        return viols, desc, nontrivial

    results = common.pmap(one, list(range(n)))
    evals, nt, seen = 0, 0, {}
    kinds = {}
    for viols, desc, nontriv in results:
        if desc is None:
            continue
        evals += 1
        nt += nontriv
        kinds[desc["mode"]] = kinds.get(desc["mode"], 0) + 1
        if len(samples) < 6 and nontriv and desc["exit"] == 0:
            samples.append({k: desc[k] for k in ("mode", "script", "args", "stdin", "exit", "stdout")})
        for sig, what, case in viols:
            res.viol_by_sig[sig] = res.viol_by_sig.get(sig, 0) + 1
            seen[sig] = seen.get(sig, 0) + 1
            if seen[sig] <= 3:
                res.viols.append({"t": "viol", "prop": "C19", "sig": sig, "what": what, "case": case})
    res.samples.extend(samples)
    return {"evaluations": evals, "nontrivial": nt, "distinct_nontrivial": nt,
            "coverage": {"invocations_by_mode": kinds, "failing_statement_kinds": FAIL_KINDS}}
