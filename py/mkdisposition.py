#!/usr/bin/env python3
"""Regenerate DESIGN.md section 6b from KNOWN_FINDINGS.txt."""
import os
V = os.path.dirname(os.path.dirname(os.path.abspath(__file__)))
p = os.path.join(V, 'DESIGN.md'); s = open(p).read()
fixed = []; findings = []
for l in open(os.path.join(V, 'KNOWN_FINDINGS.txt')):
    l = l.rstrip('\n')
    if l.startswith('fixed:'):
        body = l[len('fixed: '):]
        prop, commit, rest = body.split(' ', 2)
        fixed.append((prop.split('=')[1], commit, rest))
    elif l.startswith('finding:'):
        body = l[len('finding: '):]
        prop, rest = body.split(' ', 1)
        sig, _, text = rest.partition(' :: ')
        findings.append((prop.split('=')[1], sig[4:], text))
esc = lambda t: t.replace('|', '\\|')
out = ["## 6b. Disposition of what the monitors confirmed (generated from KNOWN_FINDINGS.txt)\n",
       "Every defect below was first reproduced by a monitor on the pinned tree, then either repaired by one `fix:` commit in `/repo`",
       "(the monitor is silent on the repaired tree and reports the violation again if it returns) or recorded as an open finding.\n",
       "| property | `fix:` commit | what failed |", "|---|---|---|"]
for prop, commit, rest in sorted(fixed):
    out.append("| %s | `%s` | %s |" % (prop, commit, esc(rest)))
out.append("\nOpen findings (not repaired: a comment at these positions is consumed by the grammar's silent `inline_comment` rule and never reaches "
           "the AST, so keeping it needs comment support in the AST for every expression position - not a small patch):\n")
out.append("| property | signature | what fails |"); out.append("|---|---|---|")
for prop, sig, text in findings:
    out.append("| %s | `%s` | %s |" % (prop, sig, esc(text)))
block = "\n".join(out) + "\n\n"
marker = "## 7. Calibration before anything is trusted"
if "## 6b." in s:
    a = s.index("## 6b."); b = s.index(marker); s = s[:a] + block + s[b:]
else:
    s = s.replace(marker, block + marker)
open(p, 'w').write(s)
print(len(fixed), "fixed,", len(findings), "findings")
