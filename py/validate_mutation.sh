#!/bin/bash
# usage: validate_mutation.sh <worktree>   - confirms: tests pass with the change, demo fails with it and passes without it
# (uses git apply / apply -R on MUTATION/patch.diff; never git stash: the stash is shared between worktrees)
set -u
D=$1
cd $D || exit 2
git checkout -q -- . && git apply MUTATION/patch.diff || { echo "patch.diff does not apply"; exit 2; }
echo "== patch:"; git diff --stat -- . ':!MUTATION' | tail -3
echo "== tests with change:"
CARGO_NET_OFFLINE=true cargo test --workspace --no-fail-fast --offline < /dev/null 2>&1 | grep -E "^test result|FAILED|panicked" | awk '/test result/{p+=$4; f+=$6} !/test result/{print} END {print "passed",p,"failed",f}'
if [ -f MUTATION/demo.sh ]; then DEMO=MUTATION/demo.sh; else DEMO=$(ls MUTATION/demo.* 2>/dev/null | head -1); fi
echo "== demo with change ($DEMO):"
( bash $DEMO > $D/MUTATION/.demo_mut.out 2>&1 < /dev/null; echo "exit=$?" )
git apply -R MUTATION/patch.diff
echo "== demo on original:"
( bash $DEMO > $D/MUTATION/.demo_orig.out 2>&1 < /dev/null; echo "exit=$?" )
git apply MUTATION/patch.diff
git diff --stat -- . ':!MUTATION' | tail -1
