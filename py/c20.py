"""C20 offline oracle: the display form is a well-formed numeral that denotes the value to 15 significant digits."""
import re
from fractions import Fraction

import offline_util as U

STD = re.compile(r"^(-?)(\d{1,3}(?:,\d{3})*)(?:\.(\d+))?$")
SCI = re.compile(r"^(-?)(\d+)(?:\.(\d+))?e([+-]?\d+)$")


def numeral_value(txt):
    """returns (kind, Fraction) or None if the text is not a well-formed numeral"""
    m = STD.match(txt)
    if m:
        sign, ip, fp = m.group(1), m.group(2), m.group(3)
        digits = ip.replace(",", "")
        if len(digits) > 1 and digits[0] == "0":
            return None  # leading zeros
        v = Fraction(int(digits))
        if fp is not None:
            v += Fraction(int(fp), 10 ** len(fp))
        return ("std", -v if sign else v, sign == "-")
    m = SCI.match(txt)
    if m:
        sign, ip, fp, ex = m.group(1), m.group(2), m.group(3), int(m.group(4))
        v = Fraction(int(ip))
        if fp is not None:
            v += Fraction(int(fp), 10 ** len(fp))
        v *= Fraction(10) ** ex
        return ("sci", -v if sign else v, sign == "-")
    return None


def floor_log10(a):
    """exact floor(log10(a)) for a positive Fraction"""
    import math
    e = int(math.floor(math.log10(float(a)))) if a < Fraction(10) ** 300 and a > Fraction(1, 10 ** 300) else (len(str(a.numerator)) - len(str(a.denominator)))
    while Fraction(10) ** e > a:
        e -= 1
    while Fraction(10) ** (e + 1) <= a:
        e += 1
    return e


def worker(path):
    viols, checked, nt = [], 0, 0
    for ev in U.iter_recs(path, ("c20",)):
        checked += 1
        x = U.bits_to_float(ev["b"])
        txt = ev["txt"]
        case = {"bits": ev["b"], "value": repr(x), "display": txt}
        if x != x:
            if txt != "NaN":
                viols.append({"sig": "special NaN", "what": "NaN is not shown by name", "case": case})
            continue
        if x in (float("inf"), float("-inf")):
            if txt != ("Infinity" if x > 0 else "-Infinity"):
                viols.append({"sig": "special infinity", "what": "an infinity is not shown by name", "case": case})
            continue
        nv = numeral_value(txt)
        if nv is None:
            viols.append({"sig": "malformed-numeral", "what": "the display form is not a well-formed numeral", "case": case})
            continue
        kind, val, neg = nv
        if x == 0:
            is_neg_zero = str(x).startswith("-")
            if val != 0 or neg != is_neg_zero:
                viols.append({"sig": "zero", "what": "zero is displayed wrongly", "case": case})
            continue
        if neg != (x < 0):
            viols.append({"sig": "sign", "what": "sign of the display form is wrong", "case": case})
            continue
        ex = U.exact(x)
        e = floor_log10(abs(ex))
        err = abs(val - ex)
        unit15 = Fraction(10) ** (e - 14)
        if not err < unit15:
            near = "below-power-of-ten" if abs(ex) * Fraction(1000001, 1000000) >= Fraction(10) ** (e + 1) else "general"
            viols.append({"sig": f"accuracy-15-digits notation={kind} {near}", "what": "the display form differs from the value by one unit or more in the 15th significant digit",
                          "case": dict(case, error_in_units_of_15th_digit=float(err / unit15))})
            continue
        if kind == "std" and x == int(x) and abs(x) < 2 ** 53 and val != ex:
            viols.append({"sig": "integer-not-exact", "what": "an integer below 2^53 in standard notation is not shown exactly", "case": case})
        nt += 1
    return {"viols": viols, "checked": checked, "extra": {"numerals_checked": checked}}


def offline(ctx, res):
    results = U.run_parallel(worker, U.shard_files(ctx["rundir"]), ctx["ncpu"])
    checked, extra = U.merge(res, results, "C20")
    return {"coverage": {"offline_oracle": "python fractions.Fraction; own numeral grammar", **extra}}
