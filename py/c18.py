"""C18 - runaway recursion ends in a call-depth error, never in a crash; moderate recursion completes.
Process-level monitor of the hooks-off release CLI started with RLIMIT_STACK = 8 MiB (the default main-thread stack)."""
import json
import os
import tempfile

import common

CRASH = {-11: "SIGSEGV", -6: "SIGABRT", -7: "SIGBUS", -4: "SIGILL", 101: "panic-exit-101", 134: "abort-134", 139: "segv-139"}

WRAPPERS = {
    # value-preserving wrappers around the recursive call, nested k times
    "binary-chain": lambda e: f"(0 + {e})",
    "binary-left": lambda e: f"({e} + 0)",
    "conditional": lambda e: f"(if true then {e} else 0)",
    "list-index": lambda e: f"[{e}][0]",
    "record-field": lambda e: f"{{kk: {e}}}.kk",
    "do-block": lambda e: f"do {{\n return {e}\n}}",
    "unary": lambda e: f"(-(-{e}))",
    "identity-lambda": lambda e: f"(x => x)({e})",
    "builtin-arg": lambda e: f"max({e}, 0)",
    "coalesce": lambda e: f"({e} ?? 0)",
}


def wrap(kind, k, e):
    for _ in range(k):
        e = WRAPPERS[kind](e)
    return e


NAME_LENGTHS = [1, 13, 40, 100]


def rename(src, name_len):
    """the same program with its function names f / a / b / c made `name_len` characters long (error messages name every
    frame, so their length grows with the names)"""
    if name_len <= 1:
        return src
    import re
    for short in ("f", "a", "b", "c"):
        long = (short + "_recursive_function_name_" + short * name_len)[:name_len]
        src = re.sub(rf"\b{short}\b", long, src)
    return src


def program(entry, wrapper, k, bound):
    """returns (source, expected output value or None for unbounded, depth units per level)"""
    W = lambda e: wrap(wrapper, k, e)
    L = bound
    base = (lambda body, stop="n": f"if n >= {L} then {stop} else {body}") if L is not None else (lambda body, stop="n": body)
    if entry == "self":
        src = f"f = n => {base(W('f(n + 1)'))}\noutput r = f(0)"
        exp, per = L, 1
    elif entry == "mutual2":
        src = f"a = n => {base(W('b(n + 1)'))}\nb = n => {base(W('a(n + 1)'))}\noutput r = a(0)"
        exp, per = L, 1
    elif entry == "mutual3":
        src = f"a = n => {base(W('b(n + 1)'))}\nb = n => {base(W('c(n + 1)'))}\nc = n => {base(W('a(n + 1)'))}\noutput r = a(0)"
        exp, per = L, 1
    elif entry == "via-callback":
        src = f"f = n => {base(W('([n + 1] via f)[0]'))}\noutput r = f(0)"
        exp, per = L, 1
    elif entry == "into":
        src = f"f = n => {base(W('((n + 1) into f)'))}\noutput r = f(0)"
        exp, per = L, 1
    elif entry == "where-callback":
        src = f"f = n => {base(W('len([n + 1] where f)') + ' == 1', 'true')}\noutput r = f(0)"
        exp, per = (True if L is not None else None), 1
    elif entry == "map-callback":
        src = f"f = n => {base(W('map([n + 1], f)[0]'))}\noutput r = f(0)"
        exp, per = L, 3
    elif entry == "filter-callback":
        src = f"f = n => {base(W('len(filter([n + 1], f))') + ' == 1', 'true')}\noutput r = f(0)"
        exp, per = (True if L is not None else None), 3
    elif entry == "reduce-callback":
        src = f"f = n => {base(W('reduce([n + 1], (acc, x) => f(x), 0)'))}\noutput r = f(0)"
        exp, per = L, 4
    elif entry == "every-callback":
        src = f"f = n => {base(W('every([n + 1], f)'), 'true')}\noutput r = f(0)"
        exp, per = (True if L is not None else None), 3
    elif entry == "group_by-callback":
        src = f"f = n => {base(W('keys(group_by([n + 1], f))[0]'), chr(34) + 'k' + chr(34))}\noutput r = f(0)"
        exp, per = ("k" if L is not None else None), 3
    elif entry == "do-block-body":
        src = f"f = n => do {{\n m = n + 1\n return {base(W('f(m)'), 'n')}\n}}\noutput r = f(0)"
        exp, per = L, 1
    elif entry == "curried":
        src = f"f = n => m => {base(W('f(n + 1)(m)'))}\noutput r = f(0)(0)"
        exp, per = L, 2
    elif entry == "forward-helper-in-do-blocks":
        # the body uses a top-level helper that is defined AFTER the function (looked up at the call through the whole
        # chain of scopes the nested do-blocks and calls have built up)
        src = f"f = n => {base(W('f(zz_succ(n))'))}\nzz_succ = m => m + 1\noutput r = f(0)"
        exp, per = L, 2
    elif entry == "anonymous-self-application":
        lam = f"((self, n) => {base(W('self(self, n + 1)'))})"
        src = f"output r = {lam}({lam}, 0)"
        exp, per = L, 1
    elif entry == "anonymous-record-method":
        src = f"step = {{go: (self, n) => {base(W('self.go(self, n + 1)'))}}}\noutput r = step.go(step, 0)"
        exp, per = L, 1
    elif entry == "anonymous-list-element":
        src = f"fs = [(fs, n) => {base(W('fs[0](fs, n + 1)'))}]\noutput r = fs[0](fs, 0)"
        exp, per = L, 1
    elif entry == "anonymous-callback-cycle":
        src = f"step = {{go: (self, n) => {base(W('([n + 1] via (m => self.go(self, m)))[0]'))}}}\noutput r = step.go(step, 0)"
        exp, per = L, 2
    else:
        raise ValueError(entry)
    return src, exp, per


FANOUT_BUDGET = 20_000_000
# R stands for the recursive call. (sort_by is not in the list: it is documented to leave the order alone when its key function
# fails, so a failing descent is not propagated by design and a runaway through a sort_by key is outside the property.)
FANOUT = {
    "sum": "R + R", "sum-of-three": "R + R + R", "product-nested": "(R * 2) - (1 + R)", "comparison": "R < R", "dot-comparison": "R .== R", "power": "R ^ R",
    "and": "(R == 1) and (R == 1)", "or": "(R == 1) or (R == 1)", "coalesce": "R ?? R", "list-literal": "[R, R]", "record-literal": "{p: R, q: R}", "call-arguments": "max(R, R)",
    "condition-and-branch": "if R == 0 then R else R", "string-concat": "to_string(R) + to_string(R)", "index": "[R][R]", "do-block-locals": "do {\n p = R\n q = R\n return p + q\n}",
    "via-two-elements": "[n, n] via (m => R)", "map-two-elements": "map([n, n], m => R)", "reduce-two-elements": "reduce([n, n], (acc, m) => acc + R, 0)",
    "where-two-elements": "[n, n] where (m => R == 0)", "spread": "[...[R], ...[R]]", "lambda-arguments": "((p, q) => p + q)(R, R)", "broadcast": "[R, 1] + [R, 2]",
    "every": "every([n, n], m => R == 0)", "nested-fan": "(R + R) + (R + R)",
}

DIRECT = ["self", "mutual2", "mutual3", "via-callback", "into", "where-callback", "do-block-body", "curried",
          # cycles on which no function has a name (functions are named by a direct `name = lambda` binding only)
          "anonymous-self-application", "anonymous-record-method", "anonymous-list-element", "anonymous-callback-cycle", "forward-helper-in-do-blocks"]
CALLBACK = ["map-callback", "filter-callback", "reduce-callback", "every-callback", "group_by-callback"]


def offline(ctx, res):
    tier, seed = ctx["tier"], ctx["seed"]
    tmpdir = tempfile.mkdtemp(prefix="c18", dir=ctx["rundir"])
    ks = [1, 2, 4, 8, 16, 32]
    cases = []
    # wrappers that work for any value type (the recursive call of every/group_by entries is not numeric)
    agnostic = ["conditional", "list-index", "record-field", "do-block", "identity-lambda", "coalesce"]
    non_numeric = {"every-callback", "group_by-callback"}
    if tier == "quick":
        # every entry shape x a rotating wrapper x every k, unbounded and bounded
        wnames = list(WRAPPERS)
        i = seed
        for e in DIRECT + CALLBACK:
            for k in ks:
                w = wnames[i % len(wnames)]
                if e in non_numeric and w not in agnostic:
                    w = agnostic[i % len(agnostic)]
                if e == "forward-helper-in-do-blocks":
                    w = "do-block"
                i += 1
                nl = NAME_LENGTHS[i % len(NAME_LENGTHS)]
                cases.append((e, w, k, None, nl))
                L = 100 if e in CALLBACK else [100, 300, 500][i % 3]
                cases.append((e, w, k, L, NAME_LENGTHS[(i + 1) % len(NAME_LENGTHS)]))
    else:
        for e in DIRECT + CALLBACK:
            for w in WRAPPERS:
                if e in non_numeric and w not in agnostic:
                    continue
                for k in ks:
                    cases.append((e, w, k, None, NAME_LENGTHS[(len(cases) + k) % len(NAME_LENGTHS)]))
                    for L in ([100, 150] if e in CALLBACK else [100, 300, 500]):
                        cases.append((e, w, k, L, 1))
            # every name length for every entry shape
            for nl in NAME_LENGTHS[1:]:
                w = "conditional"
                cases.append((e, w, 1, None, nl))
                cases.append((e, w, 1, 100, nl))

    def one(item):
        idx, (entry, wrapper, k, L, name_len) = item
        src, exp, per = program(entry, wrapper, k, L)
        src = rename(src, name_len)
        path = os.path.join(tmpdir, f"r{idx}.blots")
        with open(path, "w") as f:
            f.write(src)
        # every way a program reaches the evaluator: file argument, inline source argument, source piped into `-e`
        mode = ["file", "evaluate-stdin", "inline"][idx % 3]
        if mode == "inline" and (len(src) > 60000 or src.startswith("-")):
            mode = "file"
        if mode == "file":
            rr = common.run_cli([path], timeout=120)
        elif mode == "inline":
            rr = common.run_cli([src], timeout=120)
        else:
            rr = common.run_cli(["-e"], stdin_data=src.encode(), timeout=120)
        desc = {"mode": mode, "entry": entry, "wrapper": wrapper, "k": k, "bound": L, "function_name_length": name_len, "source": src if len(src) < 1500 else src[:1500] + "...", "exit": rr["rc"],
                "stdout": rr["out"][-300:].decode("utf-8", "replace"), "stderr": rr["err"][-300:].decode("utf-8", "replace")}
        text = (rr["out"] + rr["err"]).decode("utf-8", "replace")
        kcls = "k<4" if k < 4 else "k>=4"
        if rr["timeout"]:
            return ("inconclusive", f"watchdog on entry={entry} wrapper={wrapper} k={k} bound={L}", desc)
        if L is None:
            if rr["rc"] in CRASH:
                return ("viol", f"unbounded-recursion-crash {CRASH[rr['rc']]} {kcls}", "runaway recursion killed the process instead of ending in a call-depth error", desc)
            if rr["rc"] == 1 and "maximum call depth" in text:
                return ("ok", desc)
            return ("viol", f"unbounded-recursion-no-depth-error entry={entry}", "runaway recursion did not end with a 'maximum call depth exceeded' evaluation error", desc)
        # bounded: must complete normally with the expected value
        if rr["rc"] in CRASH:
            return ("viol", f"bounded-recursion-crash {CRASH[rr['rc']]} {kcls}", f"recursion {L} levels deep (below the limit) crashed the process", desc)
        ok = False
        if rr["rc"] == 0:
            try:
                got = json.loads(rr["out"].decode("utf-8")).get("r")
                ok = (got == exp) and (isinstance(got, bool) == isinstance(exp, bool))
            except Exception:
                ok = False
        if not ok:
            return ("viol", f"bounded-recursion-fails entry={entry} depth-per-level={per}", f"recursion {L} levels deep did not complete normally with the expected result", dict(desc, expected=exp))
        return ("ok", desc)

    results = common.pmap(one, list(enumerate(cases)))
    evals = nt = 0
    seen = {}
    samples = []
    for r in results:
        evals += 1
        if r[0] == "inconclusive":
            res.inconclusive_cases.append(r[1])
            continue
        if r[0] == "ok":
            nt += 1
            if len(samples) < 5 and r[1]["k"] >= 4:
                samples.append({k: r[1][k] for k in ("entry", "wrapper", "k", "bound", "exit", "stdout")})
            continue
        _, sig, what, desc = r
        nt += 1
        res.viol_by_sig[sig] = res.viol_by_sig.get(sig, 0) + 1
        seen[sig] = seen.get(sig, 0) + 1
        if seen[sig] <= 3:
            res.viols.append({"t": "viol", "prop": "C18", "sig": sig, "what": what, "case": desc})
    res.samples.extend(samples)
    # ---- fan-out: bodies that make SEVERAL recursive calls per level. A runaway of that kind ends as soon as the first
    # descent reaches the limit only if the failure stops the evaluation of the siblings; if they are still explored, the
    # number of calls doubles per level and the program never ends. Decided on steps, not on time: the hooks-on CLI counts
    # evaluator entries (H1) and gives up (exit 97, H7) after FANOUT_BUDGET of them; a linear descent needs a few tens of
    # thousands.
    fan = {"steps_budget": FANOUT_BUDGET, "programs": 0, "ended_with_depth_error": 0, "max_entries_hint": None}
    if os.path.exists(ctx["cli_hooks"]):
        fan_cases = []
        for name, body in FANOUT.items():
            for entry in ("self", "mutual2"):
                fan_cases.append((name, entry, body))

        def fan_one(item):
            idx, (name, entry, body) = item
            if entry == "self":
                src = f"f = n => ({body.replace('R', 'f(n + 1)')})\noutput r = f(0)"
            else:
                src = f"a = n => ({body.replace('R', 'b(n + 1)')})\nb = n => ({body.replace('R', 'a(n + 1)')})\noutput r = a(0)"
            path = os.path.join(tmpdir, f"fan{idx}.blots")
            with open(path, "w") as f:
                f.write(src)
            rr = common.run_cli([path], timeout=300, binary=ctx["cli_hooks"], env_extra={"BLOTS_VERIF_EVAL_BUDGET": str(FANOUT_BUDGET)}, stack_bytes=1 << 30)
            text = (rr["out"] + rr["err"]).decode("utf-8", "replace")
            desc = {"fan_out": name, "entry": entry, "source": src, "exit": rr["rc"], "stderr": rr["err"][-300:].decode("utf-8", "replace"), "steps_budget": FANOUT_BUDGET}
            if rr["timeout"]:
                return ("inconclusive", f"watchdog on fan-out={name} entry={entry}", desc)
            if rr["rc"] == 97 and "VERIF-EVAL-BUDGET-EXHAUSTED" in text:
                return ("viol", f"unbounded-recursion-does-not-end fan-out={name}", f"a runaway recursion with several recursive calls per level was still running after {FANOUT_BUDGET} evaluation steps (a single descent to the depth limit takes a few tens of thousands)", desc)
            if rr["rc"] == 1 and "maximum call depth" in text:
                return ("ok", desc)
            if rr["rc"] in CRASH:
                return ("inconclusive", f"hooks-on build crashed on fan-out={name} ({CRASH[rr['rc']]}); crashes are judged on the hooks-off build", desc)
            return ("viol", f"unbounded-recursion-no-depth-error fan-out={name}", "runaway recursion did not end with a 'maximum call depth exceeded' evaluation error", desc)

        for r in common.pmap(fan_one, list(enumerate(fan_cases))):
            evals += 1
            fan["programs"] += 1
            if r[0] == "inconclusive":
                res.inconclusive_cases.append(r[1])
                continue
            nt += 1
            if r[0] == "ok":
                fan["ended_with_depth_error"] += 1
                continue
            _, sig, what, desc = r
            res.viol_by_sig[sig] = res.viol_by_sig.get(sig, 0) + 1
            seen[sig] = seen.get(sig, 0) + 1
            if seen[sig] <= 3:
                res.viols.append({"t": "viol", "prop": "C18", "sig": sig, "what": what, "case": desc})
    # ---- measurements (evidence only): stack bytes per call-depth unit in the hooks-on build
    measure = {}
    if os.path.exists(ctx["cli_hooks"]):
        for wrapper, k in (("binary-chain", 1), ("binary-chain", 8), ("conditional", 8), ("do-block", 8), ("list-index", 32)):
            src, _, _ = program("self", wrapper, k, None)
            path = os.path.join(tmpdir, f"m-{wrapper}-{k}.blots")
            logp = os.path.join(tmpdir, f"m-{wrapper}-{k}.log")
            with open(path, "w") as f:
                f.write(src)
            rr = common.run_cli([path], timeout=120, binary=ctx["cli_hooks"], env_extra={"BLOTS_VERIF_STACK_LOG": logp}, stack_bytes=1 << 30)
            try:
                lines = open(logp).read().splitlines()
                last = dict(kv.split("=") for kv in lines[-1].split())
                measure[f"self/{wrapper}/k={k}"] = {"max_depth_logged": int(last["depth"]), "stack_used_bytes": int(last["stack_used"]),
                                                    "bytes_per_depth_unit": int(last["stack_used"]) // max(1, int(last["depth"])), "exit_with_1GiB_stack": rr["rc"]}
            except Exception:
                pass
    return {"evaluations": evals, "nontrivial": nt, "distinct_nontrivial": nt,
            "coverage": {"entry_shapes": DIRECT + CALLBACK, "wrappers": list(WRAPPERS), "nesting_k": ks, "stack_measurements_hooks_on(evidence only)": measure,
                         "exhaustive": tier == "thorough", "fan_out": fan, "fan_out_shapes": list(FANOUT)}}
