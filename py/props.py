"""Per-property specifications for ./check (what to run, how many shards, evidence rule text)."""

PROPS = {}

PROPS["C12"] = {
    "shards": {"quick": 8, "thorough": 16},
    "rule": ("pool of ~80 fixed + seeded near-duplicate data values (no NaN); every ordered pair is run through "
             ".== .!= .< .<= .> .>= ugt ult ugte ulte == includes, triples are checked on the observed result matrices "
             "(all in thorough, 60k sampled in quick), plus random sort/unique lists; a pair is non-trivial when the "
             "model says it is comparable or equal; distinct = distinct (value, value) pairs / lists"),
    "exhaustive_subspaces": ["all ordered pairs of the pool", "all triples of the pool (thorough)"],
    "min_nontrivial": {"quick": 200, "thorough": 200},
    "assumptions": ["model::compare / sem_eq in the harness are the reference for the documented order",
                    "values are observed through the public Heap accessors"],
}
