"""Per-property specifications for ./check (what to run, how many shards, evidence rule text)."""

import os

PROPS = {}
_CLI = "/verif/.target/cli/release/blots"


def _lazy(mod, fn="offline"):
    def call(ctx, res):
        m = __import__(mod)
        return getattr(m, fn)(ctx, res)
    return call


PROPS["C01"] = {
    "shards": {"quick": 16, "thorough": 16},
    "needs_cli": True,
    "journal": True,
    "offline": _lazy("c01"),
    "rule": ("(1) every built-in x argument counts 0..2 exhaustively over a 55-value boundary pool (+ sampled 3-4 argument tuples), through direct call, "
             "into, via, where and spread; (2) all 26 binary operators, prefix/postfix/index/spread/conditional forms x pool^2; (3) sources: the repository's examples, README "
             "snippets and test strings, nesting up to 64, grammar-generated well/ill-typed programs, corpus mutants, random punctuation-heavy text; (4) JSON input documents incl. "
             "__blots_function objects that are loaded and called; every stage (parse, AST, evaluate, validate, serialise, stringify, Display, error rendering, format at 5 widths) "
             "runs under catch_unwind on an 8 MiB stack, spans are checked against their text, process deaths are caught by a crash journal, and a sample is replayed against the "
             "release CLI. non-trivial = got past the parser (sources) / past the arity check (built-ins); distinct by case text"),
    "exhaustive_subspaces": ["built-ins x arity<=2 x pool", "binary operators x pool^2"],
    "min_nontrivial": {"quick": 5000, "thorough": 5000},
    "assumptions": ["watchdog kills and allocation-failure aborts are resource exhaustion (inconclusive), not crashes",
                    "factorial operands above 170 and the benchmark programs are not evaluated (minutes-long loops), only parsed and formatted"],
}

PROPS["C12"] = {
    "shards": {"quick": 16, "thorough": 16},
    "rule": ("pool of ~80 fixed + seeded near-duplicate data values (no NaN); every ordered pair is run through "
             ".== .!= .< .<= .> .>= ugt ult ugte ulte == includes, triples are checked on the observed result matrices "
             "(all in thorough, 60k sampled in quick), plus random sort/unique lists; a pair is non-trivial when the "
             "model says it is comparable or equal; distinct = distinct (value, value) pairs / lists"),
    "exhaustive_subspaces": ["all ordered pairs of the pool", "all triples of the pool (thorough)"],
    "min_nontrivial": {"quick": 200, "thorough": 200},
    "assumptions": ["model::compare / sem_eq in the harness are the reference for the documented order",
                    "values are observed through the public Heap accessors"],
}

_FMT_COMMON = {
    "shards": {"quick": 16, "thorough": 16},
    "needs_cli": True,
    # crash journal without restart: the real wasm driver's error paths abort a native process, so a death inside it is
    # attributed to the source that was being formatted and reported as a violation
    "journal": "norestart",
    "probe_opts": {"quick": {"cli": _CLI}, "thorough": {"cli": _CLI}},
}

PROPS["C07"] = dict(_FMT_COMMON, **{
    "rule": ("every two-level tree shape (parent kind/position x child kind, all 26 operators) printed fully parenthesised, parsed, formatted at each width and re-parsed: "
             "the AST must be identical; plus hand-written programs forcing each multi-line layout at 16 widths, operator triples (thorough), random programs with comments and "
             "blank lines through the library driver and the real `blots --format`, and evaluation equivalence of source vs formatted source; the same shapes with "
             "one identifier leaf replaced by a string literal that spans lines / holds a carriage return / looks like a comment. The library driver is the REAL blots-wasm "
             "format_blots: its source file is compiled into the harness and hook H6 hands out the result text before the wasm-bindgen hand-over (which aborts a native process). "
             "non-trivial = the formatted text differs from the input text; distinct by (source, width)"),
    "exhaustive_subspaces": ["two-level parent x child x position shapes x width set"],
    "min_nontrivial": {"quick": 2000, "thorough": 2000},
    "assumptions": ["blots-wasm::format_blots runs natively only on sources its mirror in the harness formats without error (its error paths end in wasm-bindgen stubs that abort); "
                    "errors of the driver are therefore judged on the mirror"],
})
PROPS["C08"] = dict(_FMT_COMMON, **{
    "rule": ("same workload as C07 (shapes, layout programs, random programs with comments and 0-5 blank lines); format twice through format_expr, the real blots-wasm driver and "
             "`blots --format`; the second pass must return the first unchanged. Cases whose first pass does not re-parse to the same program are C07 hits and skipped here. "
             "non-trivial = first pass changed the text"),
    "min_nontrivial": {"quick": 2000, "thorough": 2000},
    "assumptions": ["idempotence is judged only where C07 holds (first pass re-parses to the same program)"],
})
PROPS["C09"] = dict(_FMT_COMMON, **{
    "rule": ("a comment injector places comments at every position class the grammar admits (P1-P15 kept in the AST, Q1-Q8 admitted through the silent inline_comment rule) on "
             "fixed and generated programs; a lexer-level scanner extracts the comment sequence of input and output of the library driver (widths 20, 80, default, random) and of "
             "`blots --format`; the sequences must be equal. non-trivial = at least one comment injected and the decorated input parses"),
    "exhaustive_subspaces": ["comment position classes x fixed statement kinds x widths {20, 80, default}"],
    "min_nontrivial": {"quick": 500, "thorough": 500},
    "assumptions": ["strings have no escapes, so `//` outside a quote-delimited run starts a comment"],
})
PROPS["C10"] = {
    "shards": {"quick": 16, "thorough": 16},
    "rule": ("(1) every ordered pair of the 26 binary operators in both tree shapes, triples x 5 shapes (12 level representatives in quick, all 17576 in thorough), every "
             "prefix/postfix/call/index/field x binary combination: the minimally parenthesised text (per the table stated in C10, the harness's own) and the fully parenthesised "
             "text must both parse to the intended tree; (2) generated programs re-printed with optional layout (spaces, tabs, line breaks at operators/brackets/conditional parts, "
             "end-of-line comments before breaks, redundant parentheses, trailing commas, CRLF) must parse to the same tree; (3) and/or/not vs &&/||/! evaluate identically; "
             "(4) every reserved word extended by a prefix/suffix plus random plain names is bound and referenced in 43 expression positions. "
             "non-trivial = minimal and full text differ / decorated text differs / expression contains a logic operator / name derived from a reserved word"),
    "exhaustive_subspaces": ["operator pairs", "operator triples (thorough)", "reserved-word-derived names x positions"],
    "min_nontrivial": {"quick": 3000, "thorough": 3000},
    "assumptions": ["line break after a word operator, after `=`, after `if`, and an inline trailing comma in a call are not admitted by the grammar and not generated"],
}
PROPS["C11"] = {
    "shards": {"quick": 16, "thorough": 16},
    "rule": ("(1) all pairs of a 30-value scalar pool x 23 operators against an IEEE/concatenation/ordering model (NaN comparisons: no claim); (2) broadcasting law for the 17 "
             "broadcasting operators x {list-scalar, scalar-list, list-list}, lengths 0..8 incl. mismatched, element pools with nested lists and mixed types: result must be the "
             "list of element results (element operation = the real evaluator on two scalars, dot variant / coalesce / failure for list elements) and fail exactly when an element "
             "fails or lengths differ; (3) dot comparisons on lists return one boolean equal to the value relation. non-trivial = model yields a value / list form succeeds"),
    "exhaustive_subspaces": ["scalar pool^2 x 23 operators"],
    "min_nontrivial": {"quick": 5000, "thorough": 5000},
    "assumptions": ["f64 arithmetic of the harness (same toolchain) is the IEEE reference; fmod for %, powf for ^"],
}
PROPS["C13"] = {
    "shards": {"quick": 16, "thorough": 16},
    "rule": ("42 function classes (lambdas of arity 0-3, optional, rest, failing, closures, named, self- and mutually recursive, functions with late-bound names, curried, built-ins of every arity class, "
             "non-function) x random lists of length 0..10: `l via f` vs map, `l where p` vs filter, `x into f` vs f(x), every/some vs conjunction/disjunction, reduce vs a fold "
             "done by the harness with real calls, independent (element, index) expectations, and the hook-H2 call trace (once per element, in order). "
             "non-trivial = the operator form succeeds on a non-empty list"),
    "min_nontrivial": {"quick": 1000, "thorough": 1000},
    "assumptions": ["error messages are not compared, only success/failure and values"],
}
PROPS["C14"] = {
    "shards": {"quick": 16, "thorough": 16},
    "rule": ("random lists (0..40, homogeneous/mixed/duplicates/+-0), strings (ASCII, multi-byte, combining, astral, empty), records (odd keys) and integer ranges; ~70 laws with "
             "an independent list model: len, reverse, concat, spread, head/tail, indexing at every index -n-2..n+1, odd indices (no crash, element or null), slice, flatten, chunk, "
             "zip, unique, sort (stable permutation, ordered when comparable), sort_by (tagged elements), group_by/count_by, includes, range, keys/values/entries, field/index "
             "access, join/split, character coherence of len/head/tail/slice with indexing and spreading. non-trivial = non-empty list / non-ASCII string / non-empty record"),
    "min_nontrivial": {"quick": 1500, "thorough": 1500},
    "assumptions": ["model::compare is the order used to judge sortedness"],
}

PROPS["C20"] = {
    "shards": {"quick": 16, "thorough": 16},
    "offline": _lazy("c20"),
    "recs_in_memory": False,   # the offline workers read the shard files themselves
    "rule": ("doubles: +-64 ulps around 1e-4 and 1e15, +-8 ulps around every 10^k (k=-320..308), 15-digit carry patterns (9.99999999999999.., ..9995) at every decade, powers of two, "
             "subnormals, f64::MAX, plus seeded random doubles (uniform bit patterns, display-range magnitudes, few-digit decimals, integers, values just below powers of ten). "
             "Each is displayed by format_display_number and by format(\"{}\", x) (must agree); Python parses the text with its own numeral grammar and compares exactly "
             "(Fraction) against the double: error < one unit of the 15th significant digit, sign, specials by name, integers < 2^53 exact. "
             "non-trivial = not an integer below 1e15; distinct by bit pattern"),
    "min_nontrivial": {"quick": 20000, "thorough": 20000},
    "assumptions": ["CPython float/Fraction conversions are exact", "the probe's JSONL log faithfully carries the text produced by the real code"],
}

PROPS["C16"] = {
    "needs_cli": True,
    "shards": {"quick": 16, "thorough": 16},
    "offline": _lazy("c16"),
    "recs_in_memory": False,   # the offline workers read the shard files themselves
    "rule": ("doubles (decade / power-of-two / threshold boundaries +- ulps, 15-digit carry patterns, random bit patterns) pushed through five textual paths: P1 to_string->to_number, "
             "P2 JSON out->in, P3 captured in a closure->emitted source->reloaded->called, P4 literal in a function body->emitted->reloaded, P5 literal statement->formatter->parser; "
             "bits must come back identical (judged in process) and the text must denote exactly that double (judged offline by CPython float()). Literals: generated spellings "
             "(decimal up to 40 digits, fraction, scientific with signed exponents, leading dot, _ separators, 0x / 0b with separators, halfway cases near 2^53, long expansions, "
             "subnormal / overflow thresholds, radix literals above i64) are evaluated by the real parser; the exact value is computed offline from the spelling alone and must be the "
             "correctly rounded double. non-trivial = not an integer below 2^53 (doubles); every literal counts"),
    "min_nontrivial": {"quick": 5000, "thorough": 5000},
    "assumptions": ["CPython's float(str) and float(int) are correctly rounded (ties to even)", "spellings outside the documented grammar (explicit + sign) carry no claim"],
}
PROPS["C15"] = {
    "shards": {"quick": 16, "thorough": 16},
    "offline": _lazy("c15"),
    "recs_in_memory": False,   # the offline workers read the shard files themselves
    "rule": ("number lists of length 1..50 in seven regimes (small integers, dyadic, decimal fractions, mixed magnitudes, with infinities, duplicates incl. +-0, tiny and huge); "
             "sum/prod/avg/min/max/median are called as f(list), f(...list), f(a, b, ...) and on a permutation; conventions must agree bit for bit (in process); offline, exact rational "
             "arithmetic gives the reference: |sum-exact| <= n*eps*sum|x|, prod within (n+1)*2eps relative when no over/underflow is possible, avg = sum/n, min/max elements bounding "
             "all, median = middle order statistic or mean of the two, percentile on a grid: element of the list, monotone in p, 0->min, 100->max, permutation invariant. "
             "non-trivial = length >= 2"),
    "min_nontrivial": {"quick": 1000, "thorough": 1000},
    "assumptions": ["NaN is outside the quantifier"],
}
PROPS["C06"] = {
    "shards": {"quick": 16, "thorough": 16},
    "needs_cli": True,
    "offline": _lazy("c06"),
    "recs_in_memory": False,   # the offline workers read the shard files themselves
    "rule": ("(1) random data values (depth <= 5; doubles from boundaries and random bits, strings over all scalar values incl. quotes, backslashes, controls, U+2028, astral; odd keys) "
             "built directly in the heap, written by the real output path and (a) parsed by Python's json and compared with the tagged tree (bits / code points / unordered keys), "
             "(b) read back by the real input path and compared bit-exactly and with .==; (2) generated JSON documents (numbers in many spellings incl. beyond 2^64, strings with "
             "\\u escapes and surrogate pairs, duplicate keys, nesting) fed to the release CLI through -i, stdin and two -i flags with `output x = inputs.x`; stdout is parsed by "
             "Python and must equal the document (numbers as doubles); (3) `blots a | blots b` with `inputs.v .== inputs.w`. non-trivial = value has a non-integer double or a "
             "non-ASCII / escaped string (1), every CLI document (2)"),
    "min_nontrivial": {"quick": 300, "thorough": 300},
    "assumptions": ["the reserved object form {\"__blots_function\": ...} is excluded by the statement", "Python's json is the reference JSON implementation"],
}

PROPS["C19"] = {
    "shards": {"quick": 0, "thorough": 0},
    "needs_cli": True,
    "offline": _lazy("c19"),
    "rule": ("scripts built by construction: 0-6 output declarations in four forms (output x = e; x = e ... output x; re-declaration; undeclared bindings in between) whose values are "
             "literals, echoes of inputs (inputs.k, #k, absent keys, value_N), integer arithmetic and ?? defaults, so the expected outputs object is known without trusting the "
             "evaluator; an optional failing statement of 8 kinds (unknown name, type error, rebinding, forbidden target, failing call, parse error, non-callable, field of number) "
             "inserted at a random position; inputs: 0-4 --input flags and/or stdin with objects / arrays / scalars / overlapping keys / invalid JSON; modes: file, inline, -e with "
             "the source on stdin, -o file, unwritable -o path. Oracle: exit 0 <=> the model says everything succeeds; exactly one JSON object with the declared keys in order and "
             "the model's values; on failure exit != 0, no outputs object on stdout or in the file, some error report. non-trivial = script has >= 1 output and >= 1 input"),
    "min_nontrivial": {"quick": 100, "thorough": 100},
    "assumptions": ["the Python model of input merging follows the statement: stdin first, --input flags left to right, later keys override, non-objects named value_N in order of appearance"],
}

PROPS["C18"] = {
    "shards": {"quick": 0, "thorough": 0},
    "needs_cli": True,
    "needs_cli_hooks": True,
    "offline": _lazy("c18"),
    "rule": ("recursion grammar: 13 entry shapes (self, mutual 2/3, via/where/into, map/filter/reduce/every/group_by callbacks, do-block body, curried) x 10 value-preserving wrappers "
             "around the recursive call (operator chain left/right, conditional, list+index, record+field, do-block, unary, identity lambda, built-in argument, coalesce) x nesting "
             "k in {1,2,4,8,16,32}; each run by the hooks-off release CLI under RLIMIT_STACK = 8 MiB. Unbounded variants must exit 1 with 'maximum call depth', never a signal or "
             "exit 101; bounded variants (100-500 levels, call depth <= 600) must exit 0 with the expected value. quick: every entry x every k with a rotating wrapper; thorough: "
             "full product. sort_by is excluded (it swallows callback errors, so runaway recursion through it is exponential, not a depth question). "
             "non-trivial = the run produced a verdict (no watchdog)"),
    "min_nontrivial": {"quick": 100, "thorough": 100},
    "assumptions": ["8 MiB is the default main-thread stack (ulimit -s 8192)", "the hooks-on binary is used only for the stack measurements shown in evidence, never for verdicts"],
}

PROPS["C03"] = {
    "shards": {"quick": 16, "thorough": 16},
    "rule": ("session monitor: statements are fed one at a time into one shared heap + environment; after each one the environment is compared with a model (name -> snapshot): "
             "I1 every earlier name still bound to the identical, unchanged value; I2 new names only among the statement's syntactic top-level targets (nothing leaks from do-blocks, "
             "calls, callbacks, failed statements); I3 keywords / built-ins / inputs / constants never become keys and inputs keeps its value; I4 a statement whose outermost target is "
             "bound fails and changes nothing; I5 reading through the name gives the snapshot; I6 shadowing locals / parameters have their own value inside; plus heap-cell "
             "immutability, the H3 get_mut log, H5 (the top-level scope never has a binding replaced, not even inside one statement) and I7 (calling a bound function with fixed "
             "arguments gives the same outcome after every later statement that bound none of its free names). A sample of the sessions is replayed through the REAL interactive REPL "
             "of the CLI on a pseudo-terminal (statement status, final outputs object, no leaked names). Workload: ALL sequences of length <= 4 (quick) / <= 5 (thorough) over a "
             "50-statement alphabet and of length <= 3 over its six value variants (null, false, 0, empty string / list / record for every bound literal) (bind, rebind, alias, closures, "
             "nested assignment in operand / list / record / conditional, do-block and parameter shadowing, callbacks, output forms, failing statements of every kind), sampled longer "
             "sequences, and random sessions of 20-200 statements on 6 names. non-trivial = a bound name is mentioned by a later statement"),
    "exhaustive": True,
    "exhaustive_subspaces": ["statement sequences of length <= 4 over the 58-template alphabet (both tiers), of length 5 over its first 40 templates (thorough)", "sequences of length <= 3 over each of 6 value variants of the alphabet"],
    "min_nontrivial": {"quick": 100000, "thorough": 100000},
    "needs_cli": True,
    "offline": _lazy("c03"),
    "assumptions": ["`inf` / `infinity` are special-cased identifiers that are neither keywords nor constants; they are kept out of the name set (no claim either way)"],
}

PROPS["C04"] = {
    "shards": {"quick": 16, "thorough": 16},
    "rule": ("(1) 18 closure definitions with a model of their result (capturing numbers / strings / lists / records / closures over two levels, defined at top level, in do-blocks "
             "with and without shadowing, returned from functions, curried, recursive through the own name, captured inside nested lambdas / conditionals / do-blocks / record "
             "shorthand / spread / call-target / index positions, optional parameters): the call right after the definition must equal the model, then the same call is made from 19 "
             "calling contexts (colliding parameter applied immediately, colliding do-local, via / map / reduce / into callbacks, stored functions defined later, failed rebinding "
             "attempts, aliasing, nested functions with shadowing do-blocks, callbacks with colliding parameters, inside data and conditionals, sort_by key) with the colliding name "
             "drawn from the captured names, the parameter names and an unrelated name; every context must give the identical value; (2) parameter-shadowing cases; "
             "(3) ALL parameter lists req^a opt^b rest^c (a,b in 0..3, c in 0..1) x argument counts 0..n+3, direct and spread calls, against model::bind_args. "
             "non-trivial = the definition-time call succeeds and the context binds a colliding name"),
    "exhaustive_subspaces": ["parameter shapes x argument counts"],
    "min_nontrivial": {"quick": 2000, "thorough": 2000},
    "assumptions": ["parameter / local / captured names are plain names (a name spelling a built-in is turned into the built-in at parse time; not judged)"],
}

PROPS["C02"] = {
    "shards": {"quick": 16, "thorough": 16},
    "needs_cli": True,
    "probe_opts": {"quick": {"cli": _CLI}, "thorough": {"cli": _CLI}},
    "rule": ("generated well-scoped programs (2-12 statements + a block that sorts / reverses / uniques / spreads shared lists, calls random(seed), builds closures over >= 3 captured "
             "names, records with >= 3 keys, group_by / sort_by): (1) evaluated 4 times in fresh heaps with unrelated programs in between - per statement status, value (bit-exact, "
             "ordered records) and the outputs JSON bytes must agree; (2) a sample run 4 (quick) / 16 (thorough) times as separate CLI processes - stdout bytes and exit status must be "
             "identical; (3) heap-cell fingerprints before / after every statement + hook H3 (only function cells are handed out mutably); (4) `r = E` and `r_twice = E` agree; "
             "(5) let-abstraction: a strictly evaluated subexpression E' is bound to a fresh name and replaced - the result must not change (cases where E' fails alone are discarded). "
             "non-trivial = a statement produced a heap value and the program creates a lambda or a record"),
    "min_nontrivial": {"quick": 1000, "thorough": 1000},
    "assumptions": ["time_now and print are never generated", "error message text differences are reported as observations, not violations"],
}

PROPS["C05"] = {
    "shards": {"quick": 16, "thorough": 16},
    "needs_cli": True,
    "probe_opts": {"quick": {"cli": _CLI}, "thorough": {"cli": _CLI}},
    "rule": ("functions are defined in one heap, emitted through from_value -> to_json -> text, reloaded through from_str -> from_json (must be a function, not a record) -> to_value "
             "into a fresh heap, and original vs reloaded are applied to the same argument tuples (fixed type-separating tuples + random ones from a 22-value pool of numbers, "
             "booleans, strings, lists, records, lambdas, built-ins; arity-1/+1 too): status and value must agree; then the reloaded function is emitted and reloaded again. "
             "Workloads: (a) EVERY two-level tree shape (parent kind/position x child kind, all 26 operators) as a 5-parameter function body; (b) 36 captured values (strings with "
             "either / both quotes, backslashes, newlines; negative, -0, non-finite, huge and tiny numbers; nested lists, records with keys needing quotes, closures over two levels, "
             "built-ins) x 29 syntactic positions of the captured name; (c) random typed bodies closing over random captured bindings; (d) 12 real `blots a | blots b` pipelines; "
             "(e) validate_portable_value accepts exactly the closed functions. non-trivial = the original succeeds on at least one tuple"),
    "exhaustive_subspaces": ["two-level parent x child x position shapes", "captured value pool x syntactic positions"],
    "min_nontrivial": {"quick": 1500, "thorough": 1500},
    "assumptions": ["functions returned as results are compared by parameter list only", "error messages are not compared (reloaded functions are anonymous)"],
}

PROPS["C17"] = {
    "shards": {"quick": 16, "thorough": 16},
    "rule": ("the unit table is read at run time from the build under test (units::get_all_units). Exhaustive: (1) every identifier of every unit resolves to that unit; upper / lower / "
             "capitalised / swapped-case spellings follow 'unique case-insensitive match or error' per the harness's own model; unknown and near-miss spellings are errors; "
             "(2) all identifiers of a unit convert bit-identically; (3) A->A returns the value exactly; (4) A->B->A within 8 ulp of the largest magnitude on the path; (5) A->B->C vs "
             "A->C within the same tolerance for same-category triples (every 7th in quick, all in thorough); (6) `<prefix><base>`, `square <prefix><base>`, `cubic <prefix><base>` "
             "families (SI yocto..yotta, binary kibi..yobi) have ratio 10^k / 2^k within 4 ulp; (7) every cross-category ordered pair is an error; the convert built-in goes through "
             "the same table with (value, from, to). Magnitudes 0, +-1e-12 .. +-1e12. every case is non-trivial (a table entry)"),
    "exhaustive": True,
    "exhaustive_subspaces": ["identifiers", "ordered unit pairs x 13 magnitudes", "same-category triples (thorough)", "prefix families"],
    "min_nontrivial": {"quick": 20000, "thorough": 20000},
    "assumptions": ["absolute coefficients of non-prefixed units are not claimed by the statement and not checked"],
}


# the deciding method of each check, in a few words (MANIFEST `technique`)
_TECHNIQUE = {'C01': 'runtime monitoring + sanitizers: panic/abort monitor with crash journal over built-ins x boundary pool and sources; CLI and REPL (pty) process monitors; libFuzzer+ASan, Miri and overflow-checks legs (thorough)', 'C02': 'runtime monitoring: differential twin runs (same process, fresh processes), double evaluation and let-abstraction metamorphic oracles, heap-write hook H3', 'C03': 'runtime monitoring: session invariant monitor over environment / heap snapshots and hooks H3, H5 on exhaustive short statement sequences; replay through the real REPL on a pty', 'C04': 'runtime monitoring: call-site metamorphic oracle (result at definition vs every calling context) + reference model of argument binding', 'C05': 'runtime monitoring: differential original vs emitted-and-reloaded function, in process and through CLI pipes', 'C06': 'runtime monitoring: round-trip oracle, offline checker (Python json) over the recorded event log + real CLI -i / stdin', 'C07': 'runtime monitoring: AST oracle parse(format(p)) == parse(p) on exhaustive small shapes and random programs; real wasm driver (hook H6) and blots --format; evaluation equivalence', 'C08': 'runtime monitoring: string oracle format(format(p)) == format(p) on the C07 workload; real wasm driver and blots --format', 'C09': 'runtime monitoring: lexer-level comment-sequence oracle on comment-injected programs; real wasm driver and blots --format', 'C10': 'runtime monitoring: AST oracle (minimal vs fully parenthesised text, exhaustive operator pairs / triples), layout mutator, name generator, whole-program vs per-statement parse', 'C11': 'runtime monitoring: reference model of the scalar operators + element-wise broadcast oracle + aliasing differential', 'C12': 'runtime monitoring: relational-law checker (equivalence, trichotomy, transitivity) over all pairs / triples of a dense value pool', 'C13': 'runtime monitoring: differential of equivalent forms (via/map, where/filter, into/call, every/some, reduce vs harness fold) + call-event log H2', 'C14': 'runtime monitoring: algebraic-law oracles on built-in results over generated lists, strings and records', 'C15': 'runtime monitoring: offline exact-arithmetic checker (fractions.Fraction) over recorded aggregate results', 'C16': 'runtime monitoring: bit-exact round-trip oracle per textual path + offline literal-value checker with big-integer reference', 'C17': 'runtime monitoring: exhaustive unit-table law checker (resolution model, identity, round trip, transitivity, prefix ratios) + built-in vs table differential', 'C18': 'runtime monitoring: process-level monitor of the release CLI (exit status / signal / message) over a recursion grammar; step-budget verdict (hooks H1/H7) on recursion with several recursive calls per level; stack measurements through hook H1', 'C19': 'runtime monitoring: process-level oracle (Python model of the CLI contract) over generated scripts x input sets x invocation modes', 'C20': 'runtime monitoring: offline numeral-grammar parser + 15-significant-digit accuracy checker (exact rationals) over recorded display texts'}
for _k, _v in _TECHNIQUE.items():
    PROPS[_k]["technique"] = _v
