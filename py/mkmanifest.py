#!/usr/bin/env python3
"""Regenerate /verif/MANIFEST.json from py/props.py (run after adding / changing a check)."""
import json
import os
import subprocess
import sys

HERE = os.path.dirname(os.path.abspath(__file__))
sys.path.insert(0, HERE)
import props  # noqa: E402

VERIF = os.path.dirname(HERE)
all_ids = [json.loads(l)["id"] for l in open(os.path.join(VERIF, "properties.jsonl")) if l.strip()]

try:
    hook_commits = subprocess.run(["git", "-C", "/repo", "log", "--format=%H %s"], capture_output=True, text=True).stdout.splitlines()
    hook_commits = [l.split()[0] for l in hook_commits if l.split(" ", 1)[1].startswith("verif hooks")]
except Exception:
    hook_commits = []

checks = []
for pid in all_ids:
    if pid not in props.PROPS:
        continue
    s = props.PROPS[pid]
    checks.append({
        "property_id": pid,
        "quick_cmd": f"./check {pid} --tier quick",
        "thorough_cmd": f"./check {pid} --tier thorough",
        "evidence_file": f"/verif/evidence/{pid}.json",
        "replay_cmd_template": f"./check {pid} --replay {{path}}",
        "engine": "bvh-probe",
        "level_claimed": {
            "category": "exploration",
            "text": s.get("level_text", "runtime monitoring: the real code is executed on generated / enumerated workloads and an oracle "
                                        "(reference model, metamorphic pair or invariant monitor) judges every execution; held on the executions observed, not a proof"),
            "design_ref": s.get("design_ref", f"DESIGN.md section 3, {pid}"),
        },
        "level_note": s.get("level_note", "trusts the harness's reference models / oracles (independent of /repo) and the Rust toolchain 1.89.0; covers only the workloads listed in the evidence file"),
        "technique": s.get("technique", "runtime monitoring"),
    })

na = [{"property_id": pid, "reason": "check under construction in this session (not yet registered)"} for pid in all_ids if pid not in props.PROPS]

manifest = {
    "version": 1,
    "setup_cmd": "./check --setup",
    "hooks": {
        "guard": "cargo feature `verif-hooks` of blots-core (off by default)",
        "enable": "harness depends on blots-core with features=[\"verif-hooks\"]; hooks-on CLI: cargo build --release -p blots --features blots-core/verif-hooks",
        "baseline_off_cmd": "cd /repo && cargo test --workspace --no-fail-fast --offline < /dev/null",
        "source_commits": hook_commits,
        "add_only": True,
    },
    "engines": [
        {"name": "bvh-probe", "path": "/verif/harness", "serves_properties": [c["property_id"] for c in checks],
         "kind_free_text": "Rust harness running blots-core in-process (generators, reference models, invariant/metamorphic monitors) + python3 driver ./check with offline exact-arithmetic checkers and process-level monitors of the release CLI"},
    ],
    "checks": checks,
    "not_applicable": na,
    "notes": "All verdicts come from oracles observing executions of code built from /repo's working tree. Known genuine defects are listed in KNOWN_FINDINGS.txt (signature based).",
}
with open(os.path.join(VERIF, "MANIFEST.json"), "w") as f:
    json.dump(manifest, f, indent=1)
print(f"MANIFEST.json: {len(checks)} checks, {len(na)} not_applicable")
