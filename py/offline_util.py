"""Helpers for offline (exact arithmetic) checkers: run a per-shard worker over the probe's record files in parallel."""
import json
import multiprocessing as mp
import os
import struct
from fractions import Fraction


def bits_to_float(h):
    return struct.unpack(">d", bytes.fromhex(h))[0]


def float_to_bits(x):
    return struct.pack(">d", x).hex()


def exact(x):
    return Fraction(x)


def shard_files(rundir):
    return sorted(os.path.join(rundir, f) for f in os.listdir(rundir) if f.startswith("shard") and f.endswith(".jsonl"))


def iter_recs(path, kinds):
    with open(path) as f:
        for line in f:
            if '"rec"' not in line:
                continue
            try:
                ev = json.loads(line)
            except Exception:
                continue
            if ev.get("t") == "rec" and ev.get("k") in kinds:
                yield ev


def run_parallel(worker, paths, nproc):
    if not paths:
        return []
    with mp.Pool(min(nproc, len(paths))) as pool:
        return pool.map(worker, paths)


def merge(res, results, pid):
    """results: list of dict(viols=[...], checked=int, nontrivial=int, extra={...})"""
    checked = 0
    extra = {}
    seen = {}
    for r in results:
        checked += r.get("checked", 0)
        for k, v in r.get("extra", {}).items():
            if isinstance(v, (int, float)):
                extra[k] = extra.get(k, 0) + v
            else:
                extra.setdefault(k, v)
        for v in r.get("viols", []):
            n = seen.get(v["sig"], 0)
            seen[v["sig"]] = n + 1
            if n < 3:
                res.viols.append({"t": "viol", "prop": pid, **v})
            res.viol_by_sig[v["sig"]] = res.viol_by_sig.get(v["sig"], 0) + 1
    return checked, extra
