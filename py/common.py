"""Shared machinery of ./check: builds, sharded probe runs, known findings, evidence, verdicts."""
import json
import os
import resource
import shutil
import signal
import subprocess
import sys
import time
from concurrent.futures import ThreadPoolExecutor

VERIF = os.path.dirname(os.path.dirname(os.path.abspath(__file__)))
REPO = "/repo"
TARGET = os.path.join(VERIF, ".target")
HARNESS = os.path.join(VERIF, "harness")
PROBE = os.path.join(TARGET, "harness", "release", "probe")
CLI = os.path.join(TARGET, "cli", "release", "blots")
CLI_HOOKS = os.path.join(TARGET, "cli-hooks", "release", "blots")
KNOWN = os.path.join(VERIF, "KNOWN_FINDINGS.txt")
NCPU = os.cpu_count() or 4
CASE_WATCHDOG = 30  # seconds without journal progress (generous: 1000x the slowest case seen)

ENV = dict(os.environ)
ENV["CARGO_NET_OFFLINE"] = "true"
ENV.pop("RUST_BACKTRACE", None)
ENV["RUST_BACKTRACE"] = "0"


def log(msg):
    print(f"[check] {msg}", flush=True)


# ---------------------------------------------------------------------------------------------
# builds (cargo decides freshness; everything is rebuilt from /repo's working tree)

def _cargo(cmd, cwd, what):
    t0 = time.time()
    p = subprocess.run(cmd, cwd=cwd, env=ENV, stdout=subprocess.PIPE, stderr=subprocess.STDOUT, text=True)
    dt = time.time() - t0
    if p.returncode != 0:
        log(f"BUILD FAILED ({what}, {dt:.1f}s):")
        print(p.stdout[-4000:], flush=True)
        return False
    if dt > 2:
        log(f"built {what} in {dt:.1f}s")
    return True


def build_probe():
    return _cargo(["cargo", "build", "--release", "--offline"], HARNESS, "harness probe (hooks on)")


def build_cli():
    return _cargo(["cargo", "build", "--release", "--offline", "-p", "blots", "--target-dir", os.path.join(TARGET, "cli")],
                  REPO, "blots CLI (release, hooks off)")


def build_cli_hooks():
    return _cargo(["cargo", "build", "--release", "--offline", "-p", "blots", "--features", "blots-core/verif-hooks",
                   "--target-dir", os.path.join(TARGET, "cli-hooks")], REPO, "blots CLI (release, hooks on)")


def build_all():
    ok = build_probe()
    ok = build_cli() and ok
    ok = build_cli_hooks() and ok
    return ok


# ---------------------------------------------------------------------------------------------
# known findings

def load_known(pid):
    """returns (findings: {sig: text}, fixed: [text])"""
    findings, fixed = {}, []
    if not os.path.exists(KNOWN):
        return findings, fixed
    with open(KNOWN) as f:
        for line in f:
            line = line.rstrip("\n")
            if line.startswith("finding:"):
                body = line[len("finding:"):].strip()
                if not body.startswith(f"property={pid} "):
                    continue
                rest = body[len(f"property={pid} "):]
                if not rest.startswith("sig="):
                    continue
                sig, _, text = rest[4:].partition(" :: ")
                findings[sig.strip()] = text.strip()
            elif line.startswith("fixed:"):
                body = line[len("fixed:"):].strip()
                if body.startswith(f"property={pid} "):
                    fixed.append(body)
    return findings, fixed


# ---------------------------------------------------------------------------------------------
# running probes

def _limits():
    # 8 GiB address space so a runaway allocation dies quickly; no core files
    try:
        resource.setrlimit(resource.RLIMIT_AS, (12 << 30, 12 << 30))
        resource.setrlimit(resource.RLIMIT_CORE, (0, 0))
    except Exception:
        pass


def run_probe(pid, tier, seed, shard, nshards, rundir, extra_opts, timeout, journal=False, binary=None):
    """Run one shard. With journal=True the probe records every case before executing it; if the
    process dies (stack overflow, abort, escaped panic) the death is recorded together with the last
    journalled case and the shard is restarted behind it."""
    out_path = os.path.join(rundir, f"shard{shard}.jsonl")
    err_path = os.path.join(rundir, f"shard{shard}.err")
    hash_path = os.path.join(rundir, f"shard{shard}.hashes")
    jpath = os.path.join(rundir, f"shard{shard}.journal")
    base = [binary or PROBE, pid, "--seed", str(seed), "--tier", tier, "--shard", f"{shard}/{nshards}"]
    for k, v in extra_opts.items():
        base += [f"--{k}", str(v)]
    t0 = time.time()
    deaths = []
    start = 0
    rc = None
    attempt = 0
    with open(out_path, "w") as fo, open(err_path, "w") as fe:
        while True:
            cmd = base + ["--hashes", hash_path + (f".{attempt}" if attempt else "")]
            if journal:
                if os.path.exists(jpath):
                    os.remove(jpath)
                cmd += ["--journal", jpath] + (["--start", str(start)] if journal != "norestart" else [])
            left = max(5, timeout - (time.time() - t0))
            if not journal:
                try:
                    p = subprocess.run(cmd, stdout=fo, stderr=fe, env=ENV, timeout=left, preexec_fn=_limits, cwd=rundir)
                    rc = p.returncode
                except subprocess.TimeoutExpired:
                    rc = "timeout"
            else:
                # per-case watchdog: no journal progress for CASE_WATCHDOG seconds => kill, skip the case
                proc = subprocess.Popen(cmd, stdout=fo, stderr=fe, env=ENV, preexec_fn=_limits, cwd=rundir)
                last_size, last_change, t_start = -1, time.time(), time.time()
                rc = None
                while True:
                    try:
                        rc = proc.wait(timeout=0.5)
                        break
                    except subprocess.TimeoutExpired:
                        pass
                    try:
                        sz = os.path.getsize(jpath)
                    except OSError:
                        sz = -1
                    now = time.time()
                    if sz != last_size:
                        last_size, last_change = sz, now
                    if journal is True and now - last_change > CASE_WATCHDOG:
                        proc.kill()
                        proc.wait()
                        rc = "case-watchdog"
                        break
                    if now - t_start > left:
                        proc.kill()
                        proc.wait()
                        rc = "timeout"
                        break
            if not journal or rc == 0 or rc == "timeout" or rc in (2, 3) or attempt >= 25:
                break
            # abnormal death: last journal line = the case that was executing
            last_k, last_payload = None, ""
            try:
                with open(jpath, "rb") as jf:
                    lines = jf.read().decode("utf-8", "replace").splitlines()
                if lines:
                    k, _, payload = lines[-1].partition("\t")
                    last_k, last_payload = int(k), payload
            except Exception:
                pass
            if last_k is None:
                break
            deaths.append({"rc": rc, "case_index": last_k, "case": last_payload})
            if journal == "norestart":
                break
            start = last_k + 1
            attempt += 1
    hashes = [hash_path] + [f"{hash_path}.{i}" for i in range(1, attempt + 1)]
    return {"shard": shard, "rc": rc, "out": out_path, "err": err_path, "hashes": hashes, "wall": time.time() - t0, "deaths": deaths}


def count_distinct(hash_files):
    files = [f for f in hash_files if os.path.exists(f) and os.path.getsize(f) > 0]
    if not files:
        return 0
    p1 = subprocess.Popen(["sort", "-u", "--parallel=8", "-S", "1G"] + files, stdout=subprocess.PIPE, env={"LC_ALL": "C"})
    p2 = subprocess.Popen(["wc", "-l"], stdin=p1.stdout, stdout=subprocess.PIPE)
    p1.stdout.close()
    out = p2.communicate()[0]
    return int(out.strip() or 0)


class Results:
    def __init__(self):
        self.viols = []          # events t=viol for this property
        self.cross = []          # violations attributed to other properties (observations here)
        self.samples = []
        self.obs = []
        self.recs = []
        self.stats = {"evaluations": 0, "nontrivial": 0, "violations": 0}
        self.counters = {}
        self.viol_by_sig = {}
        self.inconclusive = []   # reasons that make the whole run inconclusive
        self.inconclusive_cases = []  # single cases without a verdict (watchdog, allocation failure)


def parse_outputs(pid, shard_results, res, keep_recs=True):
    for sr in shard_results:
        if sr["rc"] != 0:
            tail = ""
            try:
                with open(sr["err"]) as f:
                    tail = f.read()[-600:]
            except Exception:
                pass
            res.inconclusive.append(f"shard {sr['shard']} ended with {sr['rc']}: {tail.strip()}")
        got_stats = False
        with open(sr["out"]) as f:
            for line in f:
                line = line.strip()
                if not line:
                    continue
                try:
                    ev = json.loads(line)
                except Exception:
                    res.inconclusive.append(f"shard {sr['shard']}: unparsable event line")
                    continue
                t = ev.get("t")
                if t == "viol":
                    if ev.get("prop", pid) == pid:
                        res.viols.append(ev)
                    else:
                        res.cross.append(ev)
                elif t == "sample":
                    if len(res.samples) < 12:
                        res.samples.append(ev["case"])
                elif t == "obs":
                    if len(res.obs) < 40:
                        res.obs.append(ev)
                elif t == "stats":
                    got_stats = True
                    res.stats["evaluations"] += ev["evaluations"]
                    res.stats["nontrivial"] += ev["nontrivial"]
                    res.stats["violations"] += ev["violations"]
                    for k, v in ev.get("counters", {}).items():
                        res.counters[k] = res.counters.get(k, 0) + v
                    for k, v in ev.get("viol_by_sig", {}).items():
                        res.viol_by_sig[k] = res.viol_by_sig.get(k, 0) + v
                elif keep_recs:
                    res.recs.append(ev)
        if not got_stats and sr["rc"] == 0:
            res.inconclusive.append(f"shard {sr['shard']}: no stats event")


# ---------------------------------------------------------------------------------------------
# the check

def run_check(spec, pid, tier, seed, replay_sig=None):
    t0 = time.time()
    if not build_probe():
        log("inconclusive: harness does not build against the current tree")
        return 2
    if spec.get("needs_cli"):
        if not build_cli():
            log("inconclusive: CLI does not build")
            return 2
    if spec.get("needs_cli_hooks"):
        if not build_cli_hooks():
            log("inconclusive: hooks-on CLI does not build")
            return 2
    rundir = os.path.join(TARGET, "run", f"{pid}-{tier}-{seed}-{os.getpid()}")
    # scratch hygiene: run directories of failed / interrupted earlier runs are kept for inspection, but not for ever
    try:
        for d in os.listdir(os.path.join(TARGET, "run")):
            full = os.path.join(TARGET, "run", d)
            if time.time() - os.path.getmtime(full) > 3 * 3600:
                shutil.rmtree(full, ignore_errors=True)
    except OSError:
        pass
    shutil.rmtree(rundir, ignore_errors=True)
    os.makedirs(rundir, exist_ok=True)
    res = Results()
    nshards = spec.get("shards", {}).get(tier, 8)
    timeout = spec.get("timeout", {}).get(tier, 900 if tier == "quick" else 5400)
    extra = dict(spec.get("probe_opts", {}).get(tier, {}))
    shard_results = []
    if nshards > 0:
        with ThreadPoolExecutor(max_workers=min(nshards, NCPU)) as ex:
            futs = [ex.submit(run_probe, pid, tier, seed, i, nshards, rundir, extra, timeout, spec.get("journal") or False) for i in range(nshards)]
            shard_results = [f.result() for f in futs]
        parse_outputs(pid, shard_results, res, keep_recs=bool(spec.get("offline")) and spec.get("recs_in_memory", True))
    distinct = count_distinct([h for sr in shard_results for h in (sr["hashes"] if isinstance(sr["hashes"], list) else [sr["hashes"]])])
    # the hash files are only needed for the distinct count (they are by far the largest scratch files)
    for sr in shard_results:
        for h in (sr["hashes"] if isinstance(sr["hashes"], list) else [sr["hashes"]]):
            try:
                os.remove(h)
            except OSError:
                pass
    # process deaths observed through the crash journal (C01)
    for sr in shard_results:
        for d in sr.get("deaths", []):
            rcd = d["rc"]
            how = {101: "panic escaped (exit 101)", -11: "SIGSEGV (stack overflow?)", -6: "SIGABRT", -9: "SIGKILL"}.get(rcd, f"exit {rcd}")
            errtail = ""
            try:
                with open(sr["err"]) as f:
                    errtail = f.read()[-400:]
            except Exception:
                pass
            if "memory allocation of" in errtail and rcd == -6:
                res.inconclusive_cases.append(f"allocation failure abort (resource exhaustion) on case {d['case'][:200]}")
                continue
            if rcd == "case-watchdog":
                res.inconclusive_cases.append(f"per-case watchdog ({CASE_WATCHDOG}s without progress) on case {d['case'][:200]}")
                continue
            res.viols.append({"t": "viol", "prop": pid, "sig": f"process-death {how}", "what": "the worker process died while executing this case",
                              "case": {"case": d["case"], "stderr_tail": errtail}})
    # offline checkers / process-level monitors written in Python
    extra_cov = {}
    if spec.get("offline"):
        ctx = {"pid": pid, "tier": tier, "seed": seed, "rundir": rundir, "cli": CLI, "cli_hooks": CLI_HOOKS, "ncpu": NCPU}
        off = spec["offline"](ctx, res)
        if off:
            distinct += off.get("distinct_nontrivial", 0)
            res.stats["evaluations"] += off.get("evaluations", 0)
            res.stats["nontrivial"] += off.get("nontrivial", 0)
            extra_cov = off.get("coverage", {})
    # ---- verdict
    findings, fixed = load_known(pid)
    unknown, known_seen = [], {}
    for ev in res.viols:
        sig = ev.get("sig", "")
        if sig in findings:
            known_seen.setdefault(sig, ev)
        else:
            unknown.append(ev)
    wall = time.time() - t0
    min_nt = spec.get("min_nontrivial", {}).get(tier, 2)
    if distinct < min_nt:
        res.inconclusive.append(f"only {distinct} distinct non-trivial cases observed (< {min_nt})")
    # evidence
    ev_path = os.path.join(VERIF, "evidence", f"{pid}.json")
    os.makedirs(os.path.dirname(ev_path), exist_ok=True)
    coverage = {
        "evaluations": int(res.stats["evaluations"]),
        "distinct_nontrivial": int(distinct),
        "nontrivial_total": int(res.stats["nontrivial"]),
        "rule": spec["rule"],
        "samples": res.samples[:8] if res.samples else [{"note": "no sample emitted"}],
        "exhaustive": bool(spec.get("exhaustive", False)),
        "exhaustive_subspaces": spec.get("exhaustive_subspaces", []),
        "monitor_counters": res.counters,
        "shards": nshards,
        "known_findings_reobserved": sorted(known_seen.keys()),
        "unknown_violation_signatures": sorted({e.get("sig", "") for e in unknown}),
        "violations_by_signature": res.viol_by_sig,
        "observations": res.obs[:20],
        "cross_property_observations": [{"prop": e.get("prop"), "sig": e.get("sig"), "what": e.get("what")} for e in res.cross[:20]],
        "inconclusive": res.inconclusive,
        "inconclusive_cases": res.inconclusive_cases[:40],
        "inconclusive_case_count": len(res.inconclusive_cases),
    }
    coverage.update(extra_cov)
    evidence = {
        "property_id": pid,
        "tier": tier,
        "seed": seed,
        "level": "exploration",
        "coverage": coverage,
        "assumptions": spec.get("assumptions", []),
        "wall_s": round(wall, 2),
        "violations": len(unknown),
    }
    with open(ev_path, "w") as f:
        json.dump(evidence, f, indent=1, ensure_ascii=False, default=str)
    # output
    for sig, ev in sorted(known_seen.items()):
        print(f"KNOWN-FINDING: property={pid} {findings[sig]} [sig={sig}]", flush=True)
    rc = 0
    rdir = os.path.join(VERIF, "replay", pid)
    if os.path.isdir(rdir):
        for fn in os.listdir(rdir):
            if fn.startswith(f"{tier}-seed{seed}-"):
                os.remove(os.path.join(rdir, fn))
    if unknown:
        os.makedirs(rdir, exist_ok=True)
        seen = set()
        n = 0
        for ev in unknown:
            sig = ev.get("sig", "")
            if sig in seen:
                continue
            seen.add(sig)
            n += 1
            if n > 25:
                break
            path = os.path.join(rdir, f"{tier}-seed{seed}-{n}.json")
            with open(path, "w") as f:
                json.dump({"property": pid, "seed": seed, "tier": tier, "sig": sig, "what": ev.get("what"), "case": ev.get("case")},
                          f, indent=1, ensure_ascii=False, default=str)
            print(f"VIOLATION property={pid} replay={path}", flush=True)
            print(f"    sig: {sig}\n    what: {ev.get('what')}\n    case: {json.dumps(ev.get('case'), ensure_ascii=False, default=str)[:600]}", flush=True)
        rc = 1
    if replay_sig is not None:
        hit = any(e.get("sig") == replay_sig for e in res.viols)
        log(f"replay: signature {'REPRODUCED' if hit else 'not reproduced'}")
    if rc == 0 and res.inconclusive:
        for r in res.inconclusive[:10]:
            log(f"inconclusive: {r}")
        rc = 2
    log(f"{pid} {tier} seed={seed}: evaluations={coverage['evaluations']} distinct_nontrivial={distinct} "
        f"unknown_violations={len(unknown)} known_findings={len(known_seen)} cross_obs={len(res.cross)} wall={wall:.1f}s -> exit {rc}")
    if rc == 0:
        shutil.rmtree(rundir, ignore_errors=True)
    return rc


# ---------------------------------------------------------------------------------------------
# helpers for process-level monitors

def run_cli(args, stdin_data=None, timeout=20, stack_bytes=8 << 20, cwd=None, binary=None, env_extra=None):
    """Run the hooks-off release CLI with an explicit 8 MiB main-thread stack. Returns dict."""
    def pre():
        try:
            resource.setrlimit(resource.RLIMIT_STACK, (stack_bytes, stack_bytes))
            resource.setrlimit(resource.RLIMIT_AS, (16 << 30, 16 << 30))
            resource.setrlimit(resource.RLIMIT_CORE, (0, 0))
        except Exception:
            pass
    env = dict(ENV)
    if env_extra:
        env.update(env_extra)
    try:
        p = subprocess.run([binary or CLI] + list(args), input=stdin_data if stdin_data is not None else b"",
                           stdout=subprocess.PIPE, stderr=subprocess.PIPE, timeout=timeout, preexec_fn=pre, cwd=cwd, env=env)
        return {"rc": p.returncode, "out": p.stdout, "err": p.stderr, "timeout": False}
    except subprocess.TimeoutExpired as e:
        return {"rc": None, "out": e.stdout or b"", "err": e.stderr or b"", "timeout": True}


def pmap(fn, items, workers=None):
    with ThreadPoolExecutor(max_workers=workers or NCPU) as ex:
        return list(ex.map(fn, items))
