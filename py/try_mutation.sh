#!/bin/bash
# usage: try_mutation.sh <worktree> <check-id> [more check ids...]
# applies the worktree's patch to /repo, runs the quick checks, and always restores /repo.
set -u
D=$1; shift
cd /repo || exit 2
if [ -n "$(git status --porcelain --untracked-files=no)" ]; then echo "/repo not clean"; exit 2; fi
cp $D/MUTATION/patch.diff /tmp/current_mutation.diff
git apply /tmp/current_mutation.diff || { echo "patch does not apply"; exit 2; }
cd /verif
for P in "$@"; do
  ./check $P --tier quick > /tmp/mut_$P.log 2>&1
  rc=$?
  echo "== $P exit=$rc"
  grep -E "^VIOLATION|sig:" /tmp/mut_$P.log | head -8 | cut -c1-220
  tail -1 /tmp/mut_$P.log | cut -c1-200
done
git -C /repo checkout -- .
git -C /repo status --porcelain --untracked-files=no | head -3
