"""C01 process-level leg: a sample of the probe's sources / JSON documents is replayed against the real
hooks-off release CLI (file, inline, -e stdin, --format, -i). Exit 101 / abort / segfault = violation."""
import json
import os
import tempfile

import common

BAD = {101: "panic (exit 101)", -6: "SIGABRT", -11: "SIGSEGV", -4: "SIGILL", -7: "SIGBUS", 134: "abort (134)", 139: "segfault (139)"}


def offline(ctx, res):
    recs = [r for r in res.recs if r.get("kind") in ("cli-src", "cli-json")]
    limit = 600 if ctx["tier"] == "quick" else 6000
    recs = recs[:limit]
    tmpdir = tempfile.mkdtemp(prefix="c01cli", dir=ctx["rundir"])
    runs = [0]

    def one(item):
        i, r = item
        out = []
        if r["kind"] == "cli-src":
            src = r["source"]
            path = os.path.join(tmpdir, f"s{i}.blots")
            with open(path, "w") as f:
                f.write(src)
            modes = [("file", [path], None), ("evaluate-stdin", ["-e"], src.encode()),
                     ("format", ["--format", path, os.path.join(tmpdir, f"s{i}.out")], None)]
            if src and not src.startswith("-") and "\x00" not in src and len(src) < 2000:
                modes.append(("inline", [src], None))
            for mode, args, stdin in modes:
                rr = common.run_cli(args, stdin_data=stdin, timeout=20)
                runs[0] += 1
                if rr["timeout"]:
                    continue
                if rr["rc"] in BAD:
                    out.append({"sig": f"cli-crash mode={mode} {BAD[rr['rc']]}", "what": "the CLI process crashed",
                                "case": {"mode": mode, "source": src, "stderr": rr["err"].decode("utf-8", "replace")[-500:]}})
        else:
            doc = r["document"]
            prog = "output x = inputs" if not r.get("is_function") else "output r = [inputs.wrap, typeof(inputs)]"
            for mode, args, stdin in (("input-flag", [prog, "-i", doc], None), ("input-stdin", [prog], doc.encode())):
                rr = common.run_cli(args, stdin_data=stdin, timeout=20)
                runs[0] += 1
                if rr["timeout"]:
                    continue
                if rr["rc"] in BAD:
                    out.append({"sig": f"cli-crash mode={mode} {BAD[rr['rc']]}", "what": "the CLI process crashed on a JSON input",
                                "case": {"mode": mode, "document": doc, "stderr": rr["err"].decode("utf-8", "replace")[-500:]}})
        return out

    for vs in common.pmap(one, list(enumerate(recs))):
        for v in vs:
            res.viols.append({"t": "viol", "prop": "C01", **v})
    res.counters["cli_replays"] = runs[0]
    return {"evaluations": runs[0], "nontrivial": 0, "distinct_nontrivial": 0,
            "coverage": {"cli_leg": {"records_replayed": len(recs), "cli_invocations": runs[0], "modes": ["file", "inline", "-e stdin", "--format", "-i", "stdin inputs"]}}}
