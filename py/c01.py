"""C01 process-level leg: a sample of the probe's sources / JSON documents is replayed against the real
hooks-off release CLI (file, inline, -e stdin, --format, -i). Exit 101 / abort / segfault = violation."""
import json
import os
import tempfile

import common

BAD = {101: "panic (exit 101)", -6: "SIGABRT", -11: "SIGSEGV", -4: "SIGILL", -7: "SIGBUS", 134: "abort (134)", 139: "segfault (139)"}


def offline(ctx, res):
    recs = [r for r in res.recs if r.get("kind") in ("cli-src", "cli-json")]
    limit = 600 if ctx["tier"] == "quick" else 6000
    recs = recs[:limit]
    tmpdir = tempfile.mkdtemp(prefix="c01cli", dir=ctx["rundir"])
    runs = [0]

    def one(item):
        i, r = item
        out = []
        if r["kind"] == "cli-src":
            src = r["source"]
            path = os.path.join(tmpdir, f"s{i}.blots")
            with open(path, "w") as f:
                f.write(src)
            modes = [("file", [path], None), ("evaluate-stdin", ["-e"], src.encode()),
                     ("format", ["--format", path, os.path.join(tmpdir, f"s{i}.out")], None)]
            if src and not src.startswith("-") and "\x00" not in src and len(src) < 2000:
                modes.append(("inline", [src], None))
            for mode, args, stdin in modes:
                rr = common.run_cli(args, stdin_data=stdin, timeout=20)
                runs[0] += 1
                if rr["timeout"]:
                    continue
                if rr["rc"] in BAD:
                    out.append({"sig": f"cli-crash mode={mode} {BAD[rr['rc']]}", "what": "the CLI process crashed",
                                "case": {"mode": mode, "source": src, "stderr": rr["err"].decode("utf-8", "replace")[-500:]}})
        else:
            doc = r["document"]
            prog = "output x = inputs" if not r.get("is_function") else "output r = [inputs.wrap, typeof(inputs)]"
            for mode, args, stdin in (("input-flag", [prog, "-i", doc], None), ("input-stdin", [prog], doc.encode())):
                rr = common.run_cli(args, stdin_data=stdin, timeout=20)
                runs[0] += 1
                if rr["timeout"]:
                    continue
                if rr["rc"] in BAD:
                    out.append({"sig": f"cli-crash mode={mode} {BAD[rr['rc']]}", "what": "the CLI process crashed on a JSON input",
                                "case": {"mode": mode, "document": doc, "stderr": rr["err"].decode("utf-8", "replace")[-500:]}})
        return out

    for vs in common.pmap(one, list(enumerate(recs))):
        for v in vs:
            res.viols.append({"t": "viol", "prop": "C01", **v})
    res.counters["cli_replays"] = runs[0]
    import c01_repl
    repl_cov = c01_repl.repl_leg(ctx, res)
    fuzz_cov = fuzz_leg(ctx, res) if ctx["tier"] == "thorough" else {"skipped": "libFuzzer + ASan leg runs in the thorough tier only"}
    miri_cov = miri_leg(ctx, res) if ctx["tier"] == "thorough" else {"skipped": "Miri shard runs in the thorough tier only"}
    checked_cov = checked_leg(ctx, res) if ctx["tier"] == "thorough" else {"skipped": "overflow-checks amplifier runs in the thorough tier only"}
    return {"evaluations": runs[0], "nontrivial": 0, "distinct_nontrivial": 0,
            "coverage": {"libfuzzer_asan_leg": fuzz_cov, "miri_leg": miri_cov, "overflow_checks_leg": checked_cov, "repl_leg": repl_cov, "cli_leg": {"records_replayed": len(recs), "cli_invocations": runs[0], "modes": ["file", "inline", "-e stdin", "--format", "-i", "stdin inputs"]}}}


def max_nesting(src):
    depth = best = 0
    for c in src:
        if c in "([{":
            depth += 1
            best = max(best, depth)
        elif c in ")]}":
            depth = max(0, depth - 1)
    return best


def fuzz_leg(ctx, res):
    """Thorough only: coverage-guided libFuzzer + AddressSanitizer run of the pipeline target (nightly toolchain). The fuzzer is
    a workload generator: every artefact it saves is replayed through the pinned-toolchain probe, whose monitors decide."""
    import glob
    import shutil
    import subprocess
    import time
    if os.environ.get("VERIF_FUZZ_SECONDS", "150") == "0":
        return {"skipped": "VERIF_FUZZ_SECONDS=0"}
    harness = os.path.join(common.VERIF, "harness")
    work = os.path.join(ctx["rundir"], "fuzz")
    corpus = os.path.join(work, "corpus")
    arts = os.path.join(work, "artifacts")
    os.makedirs(corpus, exist_ok=True)
    os.makedirs(arts, exist_ok=True)
    n = 0
    for pat in ("/repo/examples/*.blots", "/repo/benches/*.blots"):
        for f in sorted(glob.glob(pat)):
            try:
                text = open(f).read()
            except Exception:
                continue
            for chunk in text.split("\n\n"):
                if 0 < len(chunk) < 500:
                    with open(os.path.join(corpus, f"seed{n}"), "w") as out:
                        out.write(chunk)
                    n += 1
    env = dict(common.ENV)
    b = subprocess.run(["cargo", "+nightly", "fuzz", "build", "pipeline"], cwd=harness, env=env, stdout=subprocess.PIPE, stderr=subprocess.STDOUT, text=True)
    if b.returncode != 0:
        return {"status": "inconclusive: fuzz target does not build", "tail": b.stdout[-500:]}
    secs = int(os.environ.get("VERIF_FUZZ_SECONDS", "150"))
    t0 = time.time()
    cmd = ["cargo", "+nightly", "fuzz", "run", "pipeline", corpus, "--", f"-max_total_time={secs}", "-timeout=10", "-rss_limit_mb=4096", "-max_len=600",
           f"-fork={min(16, common.NCPU)}", "-ignore_crashes=1", "-ignore_timeouts=1", "-ignore_ooms=1", f"-artifact_prefix={arts}/", f"-seed={ctx['seed']}"]
    try:
        r = subprocess.run(cmd, cwd=harness, env=env, stdout=subprocess.PIPE, stderr=subprocess.STDOUT, text=True, timeout=secs + 300)
        out = r.stdout
    except subprocess.TimeoutExpired as e:
        out = (e.stdout or b"").decode("utf-8", "replace") if isinstance(e.stdout, bytes) else (e.stdout or "")
    execs = 0
    for line in out.splitlines():
        if "#" in line and "cov:" in line:
            try:
                execs = max(execs, int(line.split("#")[1].split()[0].rstrip(":")))
            except Exception:
                pass
    files = sorted(glob.glob(os.path.join(arts, "*")))
    crashes = [f for f in files if os.path.basename(f).startswith("crash-")]
    others = [f for f in files if not os.path.basename(f).startswith("crash-")]
    confirmed = 0
    for f in crashes[:200]:
        try:
            src = open(f, "rb").read().decode("utf-8")
        except Exception:
            continue
        outp = os.path.join(work, os.path.basename(f) + ".jsonl")
        with open(outp, "w") as fo:
            try:
                p = subprocess.run([common.PROBE, "C01", "--part", "replay", "--file", f, "--seed", str(ctx["seed"])], stdout=fo, stderr=subprocess.PIPE, timeout=60, env=env, cwd=work)
                rc = p.returncode
            except subprocess.TimeoutExpired:
                rc = "timeout"
        if rc == 0:
            for line in open(outp):
                try:
                    ev = json.loads(line)
                except Exception:
                    continue
                if ev.get("t") == "viol" and ev.get("prop") == "C01":
                    confirmed += 1
                    ev["case"]["found_by"] = "libFuzzer+ASan artefact replayed through the probe"
                    res.viols.append(ev)
        elif rc == "timeout":
            res.inconclusive_cases.append(f"fuzz artefact replay timed out: {src[:120]!r}")
        elif max_nesting(src) <= 64:
            res.viols.append({"t": "viol", "prop": "C01", "sig": f"process-death on fuzz artefact rc={rc}", "what": "the probe process died replaying a libFuzzer artefact",
                              "case": {"source": src, "rc": str(rc)}})
            confirmed += 1
    for f in others[:50]:
        res.inconclusive_cases.append(f"libFuzzer {os.path.basename(f).split('-')[0]} artefact (resource exhaustion class, no verdict)")
    return {"status": "ran", "seconds": round(time.time() - t0, 1), "executions_reported": execs, "seed_corpus_files": n, "crash_artifacts": len(crashes),
            "timeout_or_oom_artifacts": len(others), "artifacts_confirmed_by_probe_monitors": confirmed, "sanitizer": "AddressSanitizer (cargo-fuzz default), nightly toolchain"}


def miri_leg(ctx, res):
    """Thorough only: a small shard of the built-in x pool and operator x pool sweeps under Miri (nightly). The repository has no
    unsafe code of its own, so this checks its dependencies (pest, indexmap / hashbrown, serde_json, regex ...) as driven by Blots
    for undefined behaviour. Slow (about 30 s start-up per process), so the shard is tiny."""
    import subprocess
    import time
    if os.environ.get("VERIF_MIRI", "1") == "0":
        return {"skipped": "VERIF_MIRI=0"}
    harness = os.path.join(common.VERIF, "harness")
    env = dict(common.ENV)
    env["MIRIFLAGS"] = "-Zmiri-disable-isolation"
    t0 = time.time()
    b = subprocess.run(["cargo", "+nightly", "miri", "run", "--bin", "probe", "--", "C01", "--part", "none"], cwd=harness, env=env,
                       stdout=subprocess.PIPE, stderr=subprocess.STDOUT, text=True, timeout=1500)
    if b.returncode not in (0, 2):
        return {"status": "inconclusive: probe does not build / start under Miri", "tail": b.stdout[-400:]}
    jobs = [("builtins", i, 2500) for i in range(8)] + [("operators", i, 1200) for i in range(8)]

    def one(job):
        part, i, n = job
        shard = (ctx["seed"] * 7 + i) % n
        try:
            p = subprocess.run(["cargo", "+nightly", "miri", "run", "--bin", "probe", "--", "C01", "--part", part, "--tier", "quick", "--shard", f"{shard}/{n}"],
                               cwd=harness, env=env, stdout=subprocess.PIPE, stderr=subprocess.PIPE, text=True, timeout=1500)
        except subprocess.TimeoutExpired:
            return ("timeout", part, shard, 0, "")
        evals = 0
        for line in p.stdout.splitlines():
            try:
                ev = json.loads(line)
            except Exception:
                continue
            if ev.get("t") == "stats":
                evals = ev.get("evaluations", 0)
            if ev.get("t") == "viol" and ev.get("prop") == "C01":
                ev["case"]["found_by"] = "Miri shard"
                res.viols.append(ev)
        ub = "Undefined Behavior" in p.stderr
        return ("ub" if ub else ("ok" if p.returncode == 0 else f"rc={p.returncode}"), part, shard, evals, p.stderr[-600:] if ub or p.returncode != 0 else "")

    results = common.pmap(one, jobs, workers=16)
    total = sum(r[3] for r in results)
    for st, part, shard, evals, tail in results:
        if st == "ub":
            res.viols.append({"t": "viol", "prop": "C01", "sig": "miri-undefined-behaviour", "what": "Miri reported undefined behaviour while the pipeline ran",
                              "case": {"part": part, "shard": shard, "stderr_tail": tail}})
        elif st != "ok":
            res.inconclusive_cases.append(f"Miri shard {part} {shard}: {st} {tail[-200:]}")
    return {"status": "ran", "seconds": round(time.time() - t0, 1), "processes": len(jobs), "cases_interpreted": total,
            "undefined_behaviour_reports": sum(1 for r in results if r[0] == "ub")}


def checked_leg(ctx, res):
    """Thorough only: the two-stage amplifier of DESIGN section 4. The same probe, built with `-C overflow-checks=on
    -C debug-assertions=on` (own target directory), replays the quick-tier C01 workload. Integer overflow and failed debug
    assertions are silent in the shipped profile, so a panic seen ONLY by this build is not a C01 violation by itself: the site is
    listed in the evidence (where to look), and the release-profile monitors - which ran the same cases - decide. Anything else
    this build reports that the release build also reports is already in the verdict."""
    import subprocess
    import time
    if os.environ.get("VERIF_CHECKED", "1") == "0":
        return {"skipped": "VERIF_CHECKED=0"}
    harness = os.path.join(common.VERIF, "harness")
    tdir = os.path.join(common.TARGET, "harness-checked")
    env = dict(common.ENV)
    env["RUSTFLAGS"] = "-C overflow-checks=on -C debug-assertions=on"
    t0 = time.time()
    b = subprocess.run(["cargo", "build", "--release", "--offline", "--target-dir", tdir], cwd=harness, env=env,
                       stdout=subprocess.PIPE, stderr=subprocess.STDOUT, text=True, timeout=1800)
    if b.returncode != 0:
        return {"status": "inconclusive: checked build failed", "tail": b.stdout[-400:]}
    probe = os.path.join(tdir, "release", "probe")
    n = 16

    import shutil
    import tempfile
    rundir = tempfile.mkdtemp(prefix="c01-checked-", dir=os.path.join(common.VERIF, ".target"))

    def one(i):
        r = common.run_probe("C01", "quick", ctx["seed"], i, n, rundir, {}, 1500, journal=True, binary=probe)
        evals, sites = 0, []
        try:
            for line in open(r["out"], encoding="utf-8", errors="replace"):
                try:
                    ev = json.loads(line)
                except Exception:
                    continue
                if ev.get("t") == "stats":
                    evals += ev.get("evaluations", 0)
                if ev.get("t") == "viol":
                    txt = json.dumps(ev)
                    if "overflow" in txt or "debug_assert" in txt or "assertion" in txt or "out of range" in txt:
                        sites.append({"sig": ev.get("sig"), "case": ev.get("case")})
        except OSError:
            pass
        deaths = [f"rc={d['rc']} on {d['case'][:200]}" for d in r["deaths"]]
        return (i, "ok" if r["rc"] == 0 else f"rc={r['rc']}", evals, sites, deaths)

    results = common.pmap(one, list(range(n)), workers=16)
    sites = {}
    for i, st, evals, ss, _ in results:
        for x in ss:
            sites.setdefault(x["sig"], x)
    not_ok = [f"shard {i}: {st}" for i, st, _, _, _ in results if st != "ok"]
    shutil.rmtree(rundir, ignore_errors=True)
    return {"status": "ran", "seconds": round(time.time() - t0, 1), "build": "release + overflow-checks + debug-assertions", "cases": sum(r[2] for r in results),
            "shards_without_result": not_ok, "panics_only_checked_build_can_see": len(sites),
            "process_deaths_in_checked_build": sorted({d for r in results for d in r[4]})[:10], "sites": list(sites.values())[:20],
            "role": "pointer for triage; never changes the verdict (the release-profile monitors decide)"}
